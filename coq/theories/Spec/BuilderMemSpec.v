(** The abstract Builder with an arbitrary start and roll-backs: the positions set so far and the offset. *)
From Coq Require Import ZArith List Bool.
From Low Require Import Lib.Bits Lib.BitSeq Model.BuilderOps Model.BuilderMem Spec.OfSpec.
Import ListNotations.
Open Scope Z_scope.

(** rolling back to word k forgets every position at or above 64k and puts the offset there *)
Definition amstep (a : abs) (o : mop) : abs :=
  match o with
  | MStep o => astep a o
  | MRollback k => {| abits := filter (fun p => p <? 64 * k) (abits a); aoff := 64 * k |}
  end.

Fixpoint amrun (a : abs) (ops : list mop) : list abs :=
  match ops with
  | [] => [a]
  | o :: t => a :: amrun (amstep a o) t
  end.

(** the start: a builder literal over [ws0] (its 1-bits are already there) with offset [off0] inside it *)
Definition abs_of (ws0 : list Z) (off0 : Z) : abs := {| abits := ones (flat ws0); aoff := off0 |}.
Definition start_dom (ws0 : list Z) (off0 : Z) : bool :=
  words_okb ws0 && (0 <=? off0) && (off0 <=? 64 * zlen ws0).

(** a roll-back goes to a checkpoint not beyond the current offset *)
Definition mop_dom (a : abs) (o : mop) : bool :=
  match o with
  | MStep o => bop_dom o
  | MRollback k => (0 <=? k) && (64 * k <=? aoff a)
  end.
Fixpoint mhist_dom (a : abs) (ops : list mop) : bool :=
  match ops with
  | [] => true
  | o :: t => mop_dom a o && mhist_dom (amstep a o) t
  end.
