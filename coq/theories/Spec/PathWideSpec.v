(** C10 widening, the property's own vocabulary:
    - what NewPath returns for arbitrary arguments, bit by bit;
    - what the accessors return for an arbitrary uint64 (not only path words);
    - the family relations of nodes (children, next node outside the sub-tree)
      and what they mean for the words;
    - the decoder word -> node (inverse of [enc]). *)
From Coq Require Import ZArith List Bool.
From Low Require Import Lib.Bits Lib.BitSeq Lib.Lex Lib.Bytes Spec.Bmtree Spec.PathSpec Spec.ContractSpec.
Import ListNotations.
Open Scope Z_scope.

(** the number whose bit i (0 <= i < n) is [f i] *)
Fixpoint of_bitfun (n : nat) (f : Z -> bool) : Z :=
  match n with
  | O => 0
  | S k => of_bitfun k f + (if f (Z.of_nat k) then 2 ^ Z.of_nat k else 0)
  end.

(** bit i of NewPath(sb, l, h): the upper half is sb AS GIVEN (bits of sb beyond
    the length are NOT cleared, bits of sb above 2^32 are lost), the mask is the
    block of l ones whose lowest bit is h-l — when that is a valid position *)
Definition newpath_bit (sb l h i : Z) : bool :=
  ((32 <=? i) && Z.testbit sb (i - 32)) ||
  ((0 <=? h - l) && (h - l <? 64) && (h - l <=? i) && (i <? h)).

(** [None]: the call panics (length outside the 65-entry table) *)
Definition newpath_spec (sb l h : Z) : option Z :=
  if (0 <=? l) && (l <=? 64) then Some (of_bitfun 64 (newpath_bit sb l h)) else None.

(** * accessors on an arbitrary word *)
Definition len_spec (w : Z) : Z := count_true (bits 32 (w mod 2 ^ 32)).
(** h is the position of the highest mask bit + 1, 0 for an empty mask *)
Definition height_ok (w h : Z) : bool :=
  let m := w mod 2 ^ 32 in
  if m =? 0 then h =? 0 else (1 <=? h) && (2 ^ (h - 1) <=? m) && (m <? 2 ^ h).
(** the binary numeral of v, left-padded with '0' to at least [width] digits *)
Definition numeral_spec (width v : Z) : list Z :=
  map bitchar (rev (bits (Z.to_nat (Z.max width (bitlen v))) v)).
(** PathStr of a word with l mask bits and height h: "" for l = 0, else the numeral
    of everything above the lowest mask bit's position in the upper half *)
Definition str_spec (w l h : Z) : list Z :=
  if l =? 0 then [] else numeral_spec l (w / 2 ^ (32 + h - l)).

Definition zs_eqb (a b : list Z) : bool := if list_eq_dec Z.eq_dec a b then true else false.

Definition rawfields_ok (w pl ph pb pm : Z) (ps : list Z) : bool :=
  (pl =? len_spec w) && height_ok w ph && (pb =? w / 2 ^ 32) && (pm =? w mod 2 ^ 32) &&
  zs_eqb ps (str_spec w pl ph).

(** * non-canonical search bits: [extra] < 2^(h-|q|) added below the prefix *)
Definition noncanon_ok (h : Z) (q : node) (extra w pl ph : Z) (ps : list Z) : bool :=
  (w =? enc (Z.to_nat h) q + extra * 2 ^ 32) && (pl =? zlen q) &&
  (if 1 <=? zlen q then ph =? h else true) && zs_eqb ps (node_str q).

(** * rebuilding a word from its fields *)
(** the mask is replaced by the left-aligned block of the same population and
    height; the search bits are kept *)
Definition rebuild_spec (w : Z) (h : Z) : Z :=
  (w / 2 ^ 32) * 2 ^ 32 + Mask (len_spec w) * 2 ^ (h - len_spec w).
(** a word is the path word of a node iff it decodes (height taken from the word) *)
Definition dec_word (w : Z) (h : Z) : option node := decode_word (Z.to_nat h) w.
Definition is_some {A} (o : option A) : bool := match o with Some _ => true | None => false end.
(** obs = [r, s, h]: r = NewPath(PathBits w, PathLen w, PathHeight w), s = stray bits, h = PathHeight w *)
Definition rebuild_ok (w r s h : Z) : bool :=
  height_ok w h && (r =? rebuild_spec w h) &&
  (s =? Z.land (w / 2 ^ 32) (2 ^ 32 - 1 - w mod 2 ^ 32)) &&
  Bool.eqb ((r =? w) && (s =? 0)) (is_some (dec_word w h)).

(** * family *)
Fixpoint is_prefix (q r : node) : bool :=
  match q, r with
  | [], _ => true
  | a :: q', b :: r' => Bool.eqb a b && is_prefix q' r'
  | _ :: _, [] => false
  end.
(** the first node after the sub-tree of q in pre-order: drop the trailing 1s,
    turn the last 0 into 1; none if q is on the right spine *)
Fixpoint next_out (q : node) : option node :=
  match q with
  | [] => None
  | b :: q' =>
      match next_out q' with
      | Some n => Some (b :: n)
      | None => if b then None else Some [true]
      end
  end.

(** obs = [wq, c0, c1, nx, wr]: the words of q, of its two children ([] if q is a
    leaf), of next_out q ([] if none) and of r *)
Definition family_ok (h : Z) (q r : node) (wq : Z) (c0 c1 nx : option Z) (wr : Z) : bool :=
  (match c0, c1 with
   | Some a, Some b => (wq <? a) && (a <? b) && (match nx with Some n => b <? n | None => true end)
   | None, None => zlen q =? h
   | _, _ => false end) &&
  (match nx with Some n => wq <? n | None => true end) &&
  Bool.eqb ((wq <=? wr) && (match nx with Some n => wr <? n | None => true end)) (is_prefix q r).

(** * the text of a path: order and parsing back *)
(** [strconv.ParseUint(s, 2, 64)] on a string of '0'/'1' ("" -> 0) *)
Definition parse_bin (s : list Z) : Z := fold_left (fun a c => 2 * a + (c - 48)) s 0.

(** obs = [sign of strings.Compare(PathStr w1, PathStr w2), PathStr w1, PathStr w2]:
    text order of the rendered paths = pre-order of the nodes *)
Definition strorder_ok (q1 q2 : node) (sg : Z) (s1 s2 : list Z) : bool :=
  (sg =? cmp_sign (bits_cmp q1 q2)) && zs_eqb s1 (node_str q1) && zs_eqb s2 (node_str q2).

(** obs = [w, w2]: w2 = NewPath(parse(PathStr w) << (h - len), len, h) is the word again *)
Definition strparse_ok (h : Z) (q : node) (w w2 : Z) : bool :=
  (w =? enc (Z.to_nat h) q) && (w2 =? w).

(** * sessions: PathStr called many times in one process (hidden-state mutants:
    memo tables, bounded caches, lock-free "last result" words).  PathStr is a
    pure function of the word: whatever was rendered before, or is being rendered
    concurrently, every call returns the text of its own node. *)

(** digest of a list of rendered strings (position-weighted, mod 2^64): the compact
    observation of a bulk session *)
Fixpoint digest_acc (i acc : Z) (ss : list (list Z)) : Z :=
  match ss with
  | [] => acc
  | s :: t => digest_acc (i + 1) (acc + (parse_bin s + 1) * (zlen s + 1) * i) t
  end.
Definition digest (ss : list (list Z)) : Z := digest_acc 1 0 ss mod 2 ^ 64.

(** the nodes of a segment (l, start, count): the l-bit prefixes start, start+1, ... *)
(** x, x+step, x+2*step, ... (n values) *)
Fixpoint zrange (n : nat) (x step : Z) : list Z :=
  match n with O => [] | S k => x :: zrange k (x + step) step end.
(** the SAMPLED prefixes of a segment (start, count): start, start+stride, ... below start+count *)
Definition seg_xs (start count stride : Z) : list Z :=
  zrange (Z.to_nat ((count + stride - 1) / stride)) start stride.
Definition seg_nodes (l start count stride : Z) : list node :=
  map (node_of (Z.to_nat l)) (seg_xs start count stride).

(** a bulk session: every l-bit prefix start .. start+count-1 of every segment (h, l, start, count) is
    rendered, in order (this is what fills a cache); observed: the digest of the texts of every
    stride-th prefix of each segment, and the texts of the first K prefixes of the first segment
    rendered AGAIN after the bulk *)
Definition bulk_nodes (segs : list (Z * Z * Z * Z)) (stride : Z) : list node :=
  flat_map (fun s => match s with (_, l, start, count) => seg_nodes l start count stride end) segs.
Definition first_nodes (segs : list (Z * Z * Z * Z)) (K : Z) : list node :=
  match segs with
  | [] => []
  | (_, l, start, count) :: _ => seg_nodes l start (Z.min K count) 1
  end.
Definition bulk_spec (segs : list (Z * Z * Z * Z)) (K stride : Z) : Z * list (list Z) :=
  (digest (map node_str (bulk_nodes segs stride)), map node_str (first_nodes segs K)).
