(** The mask tables in the property's own words: which bits of a 64-bit word each entry has.
    ([Mask j = 2^j - 1] ... are the closed forms of [Lib/Bits.v] used by every other model.) *)
From Coq Require Import ZArith List Bool.
From Low Require Import Lib.Bits.
Open Scope Z_scope.

(** bit [t] (0 <= t) of each table entry *)
Definition bit_Mask (j t : Z) : bool := t <? j.                        (* the low j bits *)
Definition bit_RMask (j t : Z) : bool := (j <=? t) && (t <? 64).       (* all but the low j bits *)
Definition bit_MaskUpto (j t : Z) : bool := t <=? j.                   (* bits 0..j *)
Definition bit_RMaskUpto (j t : Z) : bool := (j <? t) && (t <? 64).    (* bits above j *)
Definition bit_Bit (j t : Z) : bool := t =? j.                         (* bit j only *)
Definition bit_RBit (j t : Z) : bool := negb (t =? j) && (t <? 64).    (* all but bit j *)

Definition spec_mask_at (i : Z) : option (Z * Z) :=
  if (0 <=? i) && (i <=? 64) then Some (Mask i, RMask i) else None.
Definition spec_bit_at (i : Z) : option (Z * Z * Z * Z) :=
  if (0 <=? i) && (i <? 64) then Some (MaskUpto i, RMaskUpto i, Bit i, RBit i) else None.
