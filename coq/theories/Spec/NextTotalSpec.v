(** C13 widened: what NextOne / PrevOne do for EVERY [i], [end] (also outside
    the property's domain), in the vocabulary of Spec/NextSpec.v.
    [None] = the Go call panics (index out of range). *)
From Coq Require Import ZArith List Bool.
From Low Require Import Lib.Bits Lib.BitSeq Spec.NextSpec.
Import ListNotations.
Open Scope Z_scope.

Definition inside_bm (bm : list Z) (i : Z) : bool := (0 <=? i) && (i <? 64 * zlen bm).

(** NextOne panics iff [i] is not a position of the bitmap, or [end] lies beyond the bitmap and there
    is no 1-bit at or after [i] (the scan then reads [bm[len]]).  Otherwise: the first 1-bit of
    [i, end) or -1 - in particular -1 for every [end < i], and a range that reaches beyond the bitmap
    is fine as long as a 1-bit stops the scan. *)
Definition spec_NextOne_any (bm : list Z) (i e : Z) : option Z :=
  if inside_bm bm i then
    if (e <=? 64 * zlen bm) || negb (spec_NextOne bm i (64 * zlen bm) =? -1)
    then Some (spec_NextOne bm i e) else None
  else None.

(** PrevOne panics iff [end - 1] is not a position of the bitmap, or [i] is negative and there is no
    1-bit below [end] (the scan then reads [bm[-1]]).  [i] itself is never used as an index: any
    [i >= end] (also beyond the bitmap) gives -1. *)
Definition spec_PrevOne_any (bm : list Z) (i e : Z) : option Z :=
  if (1 <=? e) && (e <=? 64 * zlen bm) then
    if (0 <=? i) || negb (spec_PrevOne bm 0 e =? -1)
    then Some (spec_PrevOne bm i e) else None
  else None.
