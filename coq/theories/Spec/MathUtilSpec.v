(** Specification vocabulary for mathext/util (extra check X04).
    Nothing here mentions the code: minimum and maximum are characterised as the greatest lower /
    least upper bound that is one of the two arguments, clamping as the nearest point of an interval. *)
From Coq Require Import ZArith List Bool.
Import ListNotations.
Open Scope Z_scope.

(** [r] is the minimum of [a] and [b] *)
Definition is_min (a b r : Z) : Prop := r <= a /\ r <= b /\ (r = a \/ r = b).
(** [r] is the maximum of [a] and [b] *)
Definition is_max (a b r : Z) : Prop := a <= r /\ b <= r /\ (r = a \/ r = b).
(** [r] is [n] clamped into the non-empty interval [lo, hi]: the point of the interval nearest to [n] *)
Definition is_clamp (n lo hi r : Z) : Prop :=
  lo <= r <= hi /\ forall m, lo <= m <= hi -> Z.abs (r - n) <= Z.abs (m - n).

(** executable forms used by the correspondence check (the theorems show that they are the unique
    values satisfying the relations above) *)
Definition spec_min (a b : Z) : Z := Z.min a b.
Definition spec_max (a b : Z) : Z := Z.max a b.
(** on a non-empty interval: the nearest point.  On an inverted interval (hi < lo) "clamping" has no meaning;
    the code then returns its third argument, which is recorded here as it is (theorem [X04_Clap_inverted]). *)
Definition spec_clamp (n lo hi : Z) : Z :=
  if lo <=? hi then Z.max lo (Z.min n hi) else hi.
