(** What [bitmap.Fmt] prints, in its own words: the binary digits of every
    integer, least significant first, [8*size] of them (two's complement for
    the signed types), in groups of 8 separated by a space; the integers of a
    slice separated by a comma.  For a bitmap ([]uint64) the digits are [flat]. *)
From Coq Require Import ZArith List Bool.
From Low Require Import Lib.Bits Lib.BitSeq.
Import ListNotations.
Open Scope Z_scope.

Definition bitchar (b : bool) : Z := if b then 49 else 48.   (* '1' / '0' *)

(** [k] consecutive pieces of length [n] *)
Fixpoint chunks {A} (n k : nat) (l : list A) : list (list A) :=
  match k with
  | O => []
  | S k' => firstn n l :: chunks n k' (skipn n l)
  end.

Fixpoint intercalate (sep : list Z) (l : list (list Z)) : list Z :=
  match l with
  | [] => []
  | x :: t => match t with [] => x | _ => x ++ sep ++ intercalate sep t end
  end.

Definition kind_bytes (kind : Z) : option nat :=
  if (kind =? 0) || (kind =? 1) then Some 1%nat
  else if (kind =? 2) || (kind =? 3) then Some 2%nat
  else if (kind =? 4) || (kind =? 5) then Some 4%nat
  else if (kind =? 6) || (kind =? 7) then Some 8%nat
  else None.

Definition spec_intFmt (sz : nat) (x : Z) : list Z :=
  intercalate [32] (map (map bitchar) (chunks 8 sz (bits (8 * sz) x))).

(** [None] = panic (not an integer type; an empty slice of any type prints as "") *)
Definition spec_Fmt (kind : Z) (is_slice : bool) (vals : list Z) : option (list Z) :=
  match kind_bytes kind with
  | Some sz =>
      if is_slice then Some (intercalate [44] (map (spec_intFmt sz) vals))
      else match vals with [x] => Some (spec_intFmt sz x) | _ => None end
  | None => if is_slice then match vals with [] => Some [] | _ => None end else None
  end.

(** the range of a kind: what the harness may send *)
Definition kind_range (kind x : Z) : bool :=
  match kind_bytes kind with
  | None => true
  | Some sz =>
      let n := 8 * Z.of_nat sz in
      if Z.even kind then (- 2 ^ (n - 1) <=? x) && (x <? 2 ^ (n - 1)) else (0 <=? x) && (x <? 2 ^ n)
  end.

Definition is_digit (c : Z) : bool := (c =? 48) || (c =? 49).
