(** C19 - the vocabulary of "safe for concurrent readers".

    A shared memory [mem]; an operation is a function [mem -> mem * res] (what one call of a library
    function does to the memory, and what it returns); a thread is a list of operations; a schedule is
    any list of thread numbers: at each entry the named thread executes its next operation atomically
    (entries naming a finished or non-existent thread are skipped).  Every interleaving of any number of
    threads is a schedule.  No proofs here (see Proofs/ConcurrencyProofs.v). *)
From Coq Require Import List Arith.
Import ListNotations.

Section Conc.
  Variables mem res : Type.

  Definition op := mem -> mem * res.
  Definition thread := list op.

  (** the thread executed alone, from memory [m] *)
  Fixpoint run_alone (t : thread) (m : mem) : mem * list res :=
    match t with
    | [] => (m, [])
    | o :: t' => let '(m1, r) := o m in
                 let '(m2, rs) := run_alone t' m1 in (m2, r :: rs)
    end.

  (** sequential execution of all threads one after the other *)
  Fixpoint run_seq (ts : list thread) (m : mem) : mem * list (list res) :=
    match ts with
    | [] => (m, [])
    | t :: ts' => let '(m1, rs) := run_alone t m in
                  let '(m2, rss) := run_seq ts' m1 in (m2, rs :: rss)
    end.

  (** a thread in flight: the operations it has not executed yet, the results it has obtained so far *)
  Definition tstate := (thread * list res)%type.
  Definition config := (mem * list tstate)%type.

  Definition init_config (m : mem) (ts : list thread) : config := (m, map (fun t => (t, [])) ts).

  (** thread [i] executes its next operation *)
  Fixpoint step_at (i : nat) (m : mem) (ts : list tstate) {struct ts} : mem * list tstate :=
    match ts with
    | [] => (m, [])
    | st :: ts' =>
        match i with
        | O => match fst st with
               | [] => (m, st :: ts')
               | o :: rest => let '(m1, r) := o m in (m1, (rest, snd st ++ [r]) :: ts')
               end
        | S j => let '(m1, ts1) := step_at j m ts' in (m1, st :: ts1)
        end
    end.

  Fixpoint run_sched (s : list nat) (c : config) : config :=
    match s with
    | [] => c
    | i :: s' => run_sched s' (step_at i (fst c) (snd c))
    end.

  Definition results (c : config) : list (list res) := map snd (snd c).

  (** the operation does not modify the memory *)
  Definition read_only (o : op) : Prop := forall m, fst (o m) = m.

  (** the schedule lets every thread finish *)
  Definition complete (s : list nat) (ts : list thread) : Prop :=
    forall i t, nth_error ts i = Some t -> length t <= count_occ Nat.eq_dec s i.

  (** a function of the memory that returns a value and leaves the memory alone: the shape of every
      model function of this development (they are Gallina functions of their arguments and tables) *)
  Definition pure_op (f : mem -> res) : op := fun m => (m, f m).
End Conc.

Arguments run_alone {mem res}.
Arguments run_seq {mem res}.
Arguments init_config {mem res}.
Arguments step_at {mem res}.
Arguments run_sched {mem res}.
Arguments results {mem res}.
Arguments read_only {mem res}.
Arguments complete {mem res}.
Arguments pure_op {mem res}.

(** memory as a map from locations to values: "the result depends only on the locations in [R]"
    (the arguments of the call and the package tables) *)
Section Footprint.
  Variables loc val res : Type.
  Definition lmem := loc -> val.
  Definition agree_on (R : loc -> Prop) (m m' : lmem) : Prop := forall l, R l -> m l = m' l.
  Definition depends_only_on (R : loc -> Prop) (o : op lmem res) : Prop :=
    forall m m', agree_on R m m' -> snd (o m) = snd (o m').
End Footprint.
Arguments agree_on {loc val}.
Arguments depends_only_on {loc val res}.
