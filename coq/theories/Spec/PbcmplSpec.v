(** C06 / C07 in the properties' own words: what a frame is, as a flat byte string,
    and what reading one frame off a flat byte string must return.  Nothing here
    knows about chunks, buffers, loops or partial reads: a stream is the
    concatenation of whatever the reader will deliver plus the way it ends.
    (Only the types [perr] and [terminal] are shared with the model.)  No proofs. *)
From Coq Require Import ZArith List Bool.
From Low Require Import Lib.BitSeq Model.Pbcmpl.
Import ListNotations.
Open Scope Z_scope.

(** ** the frame *)

(** little-endian base-256 digits / value *)
Definition le64 (x : Z) : list Z := map (fun i => (x / 256 ^ Z.of_nat i) mod 256) (seq 0 8).
Fixpoint le_val (b : list Z) : Z :=
  match b with
  | [] => 0
  | x :: t => x + 256 * le_val t
  end.

Definition pad16 (v : list Z) : list Z := v ++ repeat 0 (16 - length v).

(** 32 bytes: version padded with NULs to 16, header size (always 32), body size *)
Definition frame_header (ver : list Z) (bodysize : Z) : list Z :=
  pad16 ver ++ le64 32 ++ le64 bodysize.

Definition frame (ver body : list Z) : list Z := frame_header ver (zlen body) ++ body.

(** a version string read back: the field without its trailing NULs *)
Fixpoint drop_zeros (l : list Z) : list Z :=
  match l with
  | [] => []
  | x :: t => if x =? 0 then drop_zeros t else l
  end.
Definition strip_nul (v : list Z) : list Z := rev (drop_zeros (rev v)).

Definition no_trailing_nul (v : list Z) : bool := negb (last v 1 =? 0).

Definition default_ver : list Z := [49; 46; 48; 46; 48].   (* "1.0.0" *)
Definition ver_of (ver : option (list Z)) : list Z :=
  match ver with Some v => v | None => default_ver end.

(** a uint64 field seen through an int64 getter *)
Definition as_int64 (x : Z) : Z := if x >=? 2 ^ 63 then x - 2 ^ 64 else x.

(** ** Marshal against a writer described by a script of responses (bytes accepted, fail?).
    The frame is handed over in two pieces, 32 bytes then the body.  A writer is
    well behaved when a response that takes fewer bytes than offered is a failure. *)
Fixpoint script_ok (script : list (Z * bool)) (sizes : list Z) : bool :=
  match sizes, script with
  | [], _ => true
  | _, [] => true
  | sz :: sizes', (k, fail) :: script' =>
      if fail then true else (sz <=? k) && script_ok script' sizes'
  end.

(** (bytes accepted in total, did the writer fail) *)
Fixpoint script_outcome (script : list (Z * bool)) (sizes : list Z) : Z * bool :=
  match sizes with
  | [] => (0, false)
  | sz :: sizes' =>
      match script with
      | [] => let '(n, f) := script_outcome [] sizes' in (sz + n, f)
      | (k, fail) :: script' =>
          if fail then (Z.max 0 (Z.min k sz), true)
          else let '(n, f) := script_outcome script' sizes' in (sz + n, f)
      end
  end.

(** result of Marshal: (n, error, bytes that reached the writer, Size(msg), HeaderSize(msg));
    [None]: a version longer than 16 bytes panics by design *)
Definition spec_Marshal (body : list Z) (ver : option (list Z)) (script : list (Z * bool))
    : option (Z * option perr * list Z * Z * Z) :=
  let v := ver_of ver in
  if zlen v >? 16 then None
  else
    let f := frame v body in
    let '(n, failed) := script_outcome script [32; zlen body] in
    Some (n, if failed then Some EInjected else None, firstn (Z.to_nat n) f, 32 + zlen body, 32).

(** ** reading one frame off a flat stream [s] that ends as [t] says *)

(** the error of a read that hit the end of the stream after [got] bytes of the item *)
Definition end_err (t : terminal) (got : Z) (at_zero : perr) : perr :=
  match t_err t with
  | EEOF => if got =? 0 then at_zero else EUnexpectedEOF
  | e => e
  end.

Definition is_eofb (e : perr) : bool := match e with EEOF => true | _ => false end.

(** ReadHeader: (n, error, version, header size, body size) *)
Definition spec_ReadHeader (s : list Z) (t : terminal) : Z * option perr * list Z * Z * Z :=
  if zlen s <? 32 then (zlen s, Some (end_err t (zlen s) EEOF), [], 0, 0)
  else (32, None, strip_nul (firstn 16 s),
        as_int64 (le_val (firstn 8 (skipn 16 s))), as_int64 (le_val (firstn 8 (skipn 24 s)))).

Section Unm.
  Variable Msg : Type.
  Variable dec : list Z -> option Msg.
  (** what a cut exactly after the header reports: io.EOF in the code as it is;
      the property tolerates io.EOF or io.ErrUnexpectedEOF there *)
  Variable eof32 : perr.

  (** Unmarshal: (n, version, error, message, what is left of the stream) *)
  Definition spec_Unmarshal (s : list Z) (t : terminal)
      : Z * list Z * option perr * option Msg * list Z :=
    if zlen s <? 32 then (zlen s, [], Some (end_err t (zlen s) EEOF), None, [])
    else
      let ver := strip_nul (firstn 16 s) in
      let hs := le_val (firstn 8 (skipn 16 s)) in
      let bs := le_val (firstn 8 (skipn 24 s)) in
      let rest := skipn 32 s in
      if negb (hs =? 32) then (32, ver, Some EInvalidHeaderSize, None, rest)
      else if bs >=? 2 ^ 63 then (32, ver, Some EInvalidBodySize, None, rest)
      else if zlen rest <? bs then
        (* truncated body *)
        (zlen s, ver, Some (end_err t (zlen rest) eof32), None, [])
      else if (zlen rest =? bs) && (0 <? bs) && t_with_last t && negb (is_eofb (t_err t)) then
        (* a read error reported together with the last byte of the body is returned *)
        (zlen s, ver, Some (t_err t), None, [])
      else
        let body := firstn (Z.to_nat bs) rest in
        let rest' := skipn (Z.to_nat bs) rest in
        match dec body with
        | Some m => (32 + bs, ver, None, Some m, rest')
        | None => (32 + bs, ver, Some EDecode, None, rest')
        end.

  (** calling Unmarshal again and again until the first error:
      steps (n, version, error, payload, bytes consumed so far) and what is left *)
  Variable payload_of : option Msg -> list Z.

  Fixpoint spec_stream (fuel : nat) (total : Z) (s : list Z) (t : terminal)
      : list (Z * list Z * option perr * list Z * Z) * list Z :=
    match fuel with
    | O => ([], s)
    | S f =>
        let '(n, ver, err, m, rest) := spec_Unmarshal s t in
        let step := (n, ver, err, payload_of m, total - zlen rest) in
        match err with
        | Some _ => ([step], rest)
        | None => let '(steps, lft) := spec_stream f total rest t in (step :: steps, lft)
        end
    end.

  Definition spec_Stream (s : list Z) (t : terminal) :=
    spec_stream (S (S (Nat.div (length s) 32))) (zlen s) s t.
End Unm.

Arguments spec_Unmarshal {Msg}.
Arguments spec_stream {Msg}.
Arguments spec_Stream {Msg}.

Definition payload_opt (m : option (list Z)) : list Z := match m with Some p => p | None => [] end.

(** ** a stream of frames written back to back and read to the end (C06) *)

(** one message = (version it carries or none, payload); [enc] its body encoding *)
Definition frame_of (enc : list Z -> list Z) (m : option (list Z) * list Z) : list Z :=
  frame (ver_of (fst m)) (enc (snd m)).

Definition wire_of (enc : list Z -> list Z) (ms : list (option (list Z) * list Z)) : list Z :=
  concat (map (frame_of enc) ms).

(** one successful step per frame, then a clean io.EOF with nothing consumed *)
Fixpoint frames_steps (enc : list Z -> list Z) (consumed : Z) (ms : list (option (list Z) * list Z))
    : list (Z * list Z * option perr * list Z * Z) :=
  match ms with
  | [] => [(0, [], Some EEOF, [], consumed)]
  | m :: ms' =>
      let n := zlen (frame_of enc m) in
      (n, ver_of (fst m), None, snd m, consumed + n) :: frames_steps enc (consumed + n) ms'
  end.

Definition msg_ok (m : option (list Z) * list Z) : bool :=
  (zlen (ver_of (fst m)) <=? 16) && no_trailing_nul (ver_of (fst m)).
