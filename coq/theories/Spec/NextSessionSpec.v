(** What a session on one bitmap with in-place updates must return: every query is
    answered for the bitmap as it is when the call is made. *)
From Coq Require Import ZArith List Bool.
From Low Require Import Lib.Bits Lib.BitSeq Spec.NextSpec Model.BitmapNextSession.
Import ListNotations.
Open Scope Z_scope.

(** the bitmap after the updates of a step ([SetBit] = set one bit, Proofs/NextSession.v: [SetBit_bits]) *)
Fixpoint spec_session (bm : list Z) (steps : list (list Z)) : list Z :=
  match steps with
  | [] => []
  | [k; i; e] :: t =>
      if k =? 2 then
        match SetBit bm i with
        | Some bm' => 0 :: spec_session bm' t
        | None => []
        end
      else (if k =? 0 then spec_NextOne bm i e else spec_PrevOne bm i e) :: spec_session bm t
  | _ => []
  end.

(** a step inside the property's domain, for a bitmap of [n] bits *)
Definition step_dom (n : Z) (s : list Z) : bool :=
  match s with
  | [k; i; e] =>
      if k =? 0 then (0 <=? i) && (i <=? e) && (e <=? n) && (i <? n)
      else if k =? 1 then (0 <=? i) && (i <=? e) && (e <=? n) && (i <? n) && (1 <=? e)
      else if k =? 2 then (0 <=? i) && (i <? n)
      else false
  | _ => false
  end.
