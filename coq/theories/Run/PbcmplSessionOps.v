(** Protocol values of the session / bufio / big-body operations of C06 and C07
    (histories of several calls in ONE process, readers wrapped in a *bufio.Reader,
    bodies above 1 MiB given in run-length form).  No proofs. *)
From Coq Require Import ZArith List Bool String.
From Low Require Import Lib.BitSeq Lib.Bytes Lib.Val Model.Pbcmpl Model.PbcmplWalk
  Spec.PbcmplSpec Spec.PbcmplWalkSpec Run.PbcmplOps Run.PbcmplWalkOps.
Import ListNotations.
Open Scope Z_scope.

Fixpoint all2 {A B} (f : A -> B -> bool) (l1 : list A) (l2 : list B) : bool :=
  match l1, l2 with
  | [], [] => true
  | a :: l1', b :: l2' => f a b && all2 f l1' l2'
  | _, _ => false
  end.

(** ** a *bufio.Reader between the chunk reader and the package: transparent for the
    bytes; the reader's terminal error is always delivered AFTER the buffered data, so
    the model runs on the terminal condition "error alone".  What the underlying reader
    has handed over (consumed / left) is bufio's business and not observed. *)
Definition v_step4 (s : Z * list Z * option perr * list Z * Z) : val :=
  let '(n, ver, err, payload, _) := s in VL [VZ n; vzs ver; v_err err; vzs payload].

Definition v_bufstream_model (kind : Z) (r : creader) : val :=
  match c_Stream kind r with
  | None => VPanic
  | Some (steps, _) => VL (map v_step4 steps)
  end.

Definition v_bufstream_spec (kind : Z) (eof32 : perr) (s : list Z) (t : terminal) : val :=
  let '(steps, _) := spec_Stream (k_dec kind) eof32 payload_opt s t in VL (map v_step4 steps).

(** the headers a walk holds on to: one per step whose header was read (n = 32), as
    [version, header size, body size] — inspected AFTER the whole stream was walked *)
Definition held_of (steps : list wstep) : list val :=
  flat_map (fun s : wstep => let '(n, _, ver, hs, bs, _, _) := s in
                             if n =? 32 then [VL [vzs ver; VZ hs; VZ bs]] else []) steps.

Definition v_walkheld (steps : list wstep) : val :=
  VL [VL (map v_wstep steps); VL (held_of steps)].

(** ** one "connection" of a round-trip session: marshal the messages into a buffer,
    keep the first [cut] bytes (all when cut < 0), read with Unmarshal until the first error *)
Definition cut_wire (cut : Z) (wire : list Z) : list Z :=
  if cut <? 0 then wire else firstn (Z.to_nat cut) wire.

(** [[msg, ...], chunk pattern, eof with last chunk, cut] *)
Definition as_conn (v : val) : option (list (option (list Z) * list Z) * list Z * bool * Z) :=
  match v with
  | VL [ms; pat; wl; cut] =>
      match as_list ms, as_zs pat, as_bool wl, as_z cut with
      | Some ms, Some pat, Some wl, Some cut =>
          match opt_all (map as_msg ms) with
          | Some ms => Some (ms, pat, wl, cut)
          | None => None
          end
      | _, _, _, _ => None
      end
  | _ => None
  end.

Definition conn_ok (c : list (option (list Z) * list Z) * list Z * bool * Z) : bool :=
  let '(ms, pat, _, _) := c in forallb msg_ok ms && all_pos pat.

Definition conn_model (kind : Z) (c : list (option (list Z) * list Z) * list Z * bool * Z) : val :=
  let '(ms, pat, wl, cut) := c in
  match model_wire kind ms with
  | None => VPanic
  | Some wire => v_stream_model kind (chunks_of pat (cut_wire cut wire), term_of 0 wl)
  end.

Definition conn_spec (kind : Z) (c : list (option (list Z) * list Z) * list Z * bool * Z) (obs : val) : bool :=
  let '(ms, _, wl, cut) := c in
  let s := cut_wire cut (wire_of (k_enc kind) ms) in
  val_eqb (v_stream_spec kind EEOF s (term_of 0 wl)) obs
  || val_eqb (v_stream_spec kind EUnexpectedEOF s (term_of 0 wl)) obs.

(** ** one call of a Marshal session: [msg, writer script] *)
Definition as_mcall (v : val) : option ((option (list Z) * list Z) * list (Z * bool)) :=
  match v with
  | VL [m; sc] => match as_msg m, as_script sc with
                  | Some m, Some sc => Some (m, sc)
                  | _, _ => None end
  | _ => None
  end.

(** ** bodies above 1 MiB: the payload is [count] times one byte; every byte string of
    the observation is given in run-length form [[count, byte], ...] with maximal runs.
    Materialising megabyte lists overflows the stack of the extracted driver, so the
    value is computed directly in this compact form; it is the value that
    C06_op_roundtrip proves for the materialised payloads (see [expand_runs]). *)
Definition runs : Type := list (Z * Z).

Fixpoint norm_runs (r : runs) : runs :=
  match r with
  | [] => []
  | (c, b) :: t =>
      if c <=? 0 then norm_runs t
      else match norm_runs t with
           | (c', b') :: t' => if b =? b' then (c + c', b) :: t' else (c, b) :: (c', b') :: t'
           | [] => [(c, b)]
           end
  end.

Definition bytes_runs (l : list Z) : runs := map (fun b => (1, b)) l.
Definition expand_runs (r : runs) : list Z := flat_map (fun cb => repeat (snd cb) (Z.to_nat (fst cb))) r.
Definition v_runs (r : runs) : val := VL (map (fun cb => VL [VZ (fst cb); VZ (snd cb)]) (norm_runs r)).

Definition big_enc_runs (kind count byte : Z) : runs :=
  if kind =? 1 then (if count <=? 0 then [] else bytes_runs (10 :: put_varint 10 count) ++ [(count, byte)])
  else [(count, byte)].

Definition big_enc_len (kind count : Z) : Z :=
  if kind =? 1 then (if count <=? 0 then 0 else 1 + zlen (put_varint 10 count) + count)
  else Z.max 0 count.

(** [hasver, ver, count, byte] *)
Definition as_bigmsg (v : val) : option (option (list Z) * Z * Z) :=
  match v with
  | VL [hv; ver; c; b] =>
      match as_bool hv, as_zs ver, as_z c, as_z b with
      | Some hv, Some ver, Some c, Some b =>
          if bytes_okb ver && byte_okb b && (0 <=? c) && (c <? 2 ^ 31)
          then Some (if hv then Some ver else None, c, b) else None
      | _, _, _, _ => None
      end
  | _ => None
  end.

Definition bigmsg_ok (m : option (list Z) * Z * Z) : bool :=
  let '(ver, _, _) := m in (zlen (ver_of ver) <=? 16) && no_trailing_nul (ver_of ver).

Definition big_frame_runs (kind : Z) (m : option (list Z) * Z * Z) : runs :=
  let '(ver, c, b) := m in
  bytes_runs (frame_header (ver_of ver) (big_enc_len kind c)) ++ big_enc_runs kind c b.

Fixpoint big_steps (kind consumed : Z) (ms : list (option (list Z) * Z * Z)) : list val :=
  match ms with
  | [] => [VL [VZ 0; vzs []; v_err (Some EEOF); v_runs []; VZ consumed]]
  | (ver, c, b) :: ms' =>
      let n := 32 + big_enc_len kind c in
      VL [VZ n; vzs (ver_of ver); v_err None; v_runs [(c, b)]; VZ (consumed + n)]
      :: big_steps kind (consumed + n) ms'
  end.

(** [wire, [[n, errclass, Size, HeaderSize] per Marshal], [[n, ver, errclass, payload, consumed] per Unmarshal], left] *)
Definition big_roundtrip (kind : Z) (ms : list (option (list Z) * Z * Z)) : val :=
  VL [v_runs (List.concat (map (big_frame_runs kind) ms));
      VL (map (fun m => let '(_, c, _) := m in let n := 32 + big_enc_len kind c in
                        VL [VZ n; VZ 0; VZ n; VZ 32]) ms);
      VL (big_steps kind 0 ms);
      v_runs []].
