(** Protocol operations for C01 (see Lib/Val.v). *)
From Coq Require Import ZArith List Bool String.
From Low Require Import Lib.Bits Lib.BitSeq Lib.Val Model.Rank Spec.RankSpec Run.RankWideOps.
Import ListNotations.
Open Scope string_scope.
Open Scope Z_scope.

Definition in_range (ws : list Z) (i : Z) : bool := (0 <=? i) && (i <? 64 * zlen ws).

Definition vpairZ (p : Z * Z) : val := VL [VZ (fst p); VZ (snd p)].

Definition ops_C01_core : list opdef := [
  {| op_name := "bitmap.IndexRank64";
     op_run := fun a => match a with
       | [ws; tr] => match as_zs ws, as_bool tr with
                     | Some ws, Some tr => vzs (IndexRank64 ws tr) | _, _ => VBad end
       | _ => VBad end;
     op_spec := fun_spec (fun a => match a with
       | [ws; tr] => match as_zs ws, as_bool tr with
                     | Some ws, Some tr => vzs (spec_IndexRank64 ws tr) | _, _ => VBad end
       | _ => VBad end) |};
  {| op_name := "bitmap.IndexRank128";
     op_run := fun a => match a with
       | [ws] => match as_zs ws with Some ws => vzs (IndexRank128 ws) | _ => VBad end
       | _ => VBad end;
     op_spec := fun_spec (fun a => match a with
       | [ws] => match as_zs ws with Some ws => vzs (spec_IndexRank128 ws) | _ => VBad end
       | _ => VBad end) |};
  (* Rank64 with the index built by IndexRank64(words, trailing) *)
  {| op_name := "bitmap.Rank64";
     op_run := fun a => match a with
       | [ws; tr; i] => match as_zs ws, as_bool tr, as_z i with
           | Some ws, Some tr, Some i =>
               if in_range ws i then
                 match Rank64 ws (IndexRank64 ws tr) i with Some p => vpairZ p | None => VPanic end
               else VBad
           | _, _, _ => VBad end
       | _ => VBad end;
     op_spec := fun_spec (fun a => match a with
       | [ws; tr; i] => match as_zs ws, as_z i with
           | Some ws, Some i => vpairZ (spec_Rank ws i) | _, _ => VBad end
       | _ => VBad end) |};
  {| op_name := "bitmap.Rank128";
     op_run := fun a => match a with
       | [ws; i] => match as_zs ws, as_z i with
           | Some ws, Some i =>
               if in_range ws i then
                 match Rank128 ws (IndexRank128 ws) i with Some p => vpairZ p | None => VPanic end
               else VBad
           | _, _ => VBad end
       | _ => VBad end;
     op_spec := fun_spec (fun a => match a with
       | [ws; i] => match as_zs ws, as_z i with
           | Some ws, Some i => vpairZ (spec_Rank ws i) | _, _ => VBad end
       | _ => VBad end) |};
  (* "held" variants: the Go side builds decoy indexes between building and querying; the result must
     be the same (the extra last argument, the decoy bitmap, is ignored here) *)
  {| op_name := "bitmap.Rank64/held";
     op_run := fun a => match a with
       | [ws; tr; i; _] => match as_zs ws, as_bool tr, as_z i with
           | Some ws, Some tr, Some i =>
               if in_range ws i then
                 match Rank64 ws (IndexRank64 ws tr) i with Some p => vpairZ p | None => VPanic end
               else VBad
           | _, _, _ => VBad end
       | _ => VBad end;
     op_spec := fun_spec (fun a => match a with
       | [ws; tr; i; _] => match as_zs ws, as_z i with
           | Some ws, Some i => vpairZ (spec_Rank ws i) | _, _ => VBad end
       | _ => VBad end) |};
  {| op_name := "bitmap.Rank128/held";
     op_run := fun a => match a with
       | [ws; i; _] => match as_zs ws, as_z i with
           | Some ws, Some i =>
               if in_range ws i then
                 match Rank128 ws (IndexRank128 ws) i with Some p => vpairZ p | None => VPanic end
               else VBad
           | _, _ => VBad end
       | _ => VBad end;
     op_spec := fun_spec (fun a => match a with
       | [ws; i; _] => match as_zs ws, as_z i with
           | Some ws, Some i => vpairZ (spec_Rank ws i) | _, _ => VBad end
       | _ => VBad end) |}
].

(** the widening round: any int32 position, laws, two-piece bitmaps, side-by-side indexes, histories *)
Definition ops_C01 : list opdef := (ops_C01_core ++ ops_C01_wide)%list.
