(** Protocol operations for C03 (see Lib/Val.v).
    A case is (T, [b0,b1,…]): the level mask and the node; the tree height is
    Height(T).  BOTH sides build the path word (Go: bmtree.NewPath(bits
    left-aligned in h, len, h)).  The same ops are run against the release and
    the [-tags debug] harness; a contract panic is observed as P, which the
    specification rejects. *)
From Coq Require Import ZArith List Bool String.
From Low Require Import Lib.Bits Lib.BitSeq Lib.Lex Lib.Bytes Lib.Val
  Spec.Bmtree Spec.IndexSpec Spec.ContractSpec Spec.FromStr32Spec Model.BmtreePath Model.BmtreeIndex Model.FromStr32.
Import ListNotations.
Open Scope string_scope.
Open Scope Z_scope.

Definition c03_node (v : val) : option node :=
  match as_zs v with
  | Some l => if forallb (fun z => (z =? 0) || (z =? 1)) l then Some (map (fun z => z =? 1) l) else None
  | None => None
  end.

(** domain of the property: 1 <= T < 2^31, |q| <= Height T *)
Definition c03_dom (T : Z) (q : node) : bool :=
  (1 <=? T) && (T <? 2 ^ 31) && (zlen q <=? Height T).

Definition c03_word (T : Z) (q : node) : Z :=
  let h := Height T in NewPath (valL (Z.to_nat h) q) (zlen q) h.

Definition c03_h (T : Z) : nat := Z.to_nat (Height T).

Definition vpairZ (p : Z * Z) : val := VL [VZ (fst p); VZ (snd p)].

(** [dbg] selects the model of the build under test: release (contracts
    compiled out) or [-tags debug] (contracts run first).  The specification
    is the same for both. *)
Definition op_loose (name : string) (dbg : bool) : opdef :=
  {| op_name := name;
     op_run := fun a => match a with
       | [T; q] => match as_z T, c03_node q with
           | Some T, Some q =>
               if c03_dom T q then
                 match (if dbg then PathToIndexLoose_debug else PathToIndexLoose) T (c03_word T q) with
                 | Some p => vpairZ p | None => VPanic end
               else VBad
           | _, _ => VBad end
       | _ => VBad end;
     op_spec := fun_spec (fun a => match a with
       | [T; q] => match as_z T, c03_node q with
           | Some T, Some q => vpairZ (spec_loose T (c03_h T) q)
           | _, _ => VBad end
       | _ => VBad end) |}.

Definition op_strict (name : string) (dbg : bool) : opdef :=
  {| op_name := name;
     op_run := fun a => match a with
       | [T; q] => match as_z T, c03_node q with
           | Some T, Some q =>
               if c03_dom T q && stored T q then
                 match (if dbg then PathToIndex_debug else PathToIndex) T (c03_word T q) with
                 | Some i => VZ i | None => VPanic end
               else VBad
           | _, _ => VBad end
       | _ => VBad end;
     op_spec := fun_spec (fun a => match a with
       | [T; q] => match as_z T, c03_node q with
           | Some T, Some q => VZ (spec_rank T (c03_h T) q)
           | _, _ => VBad end
       | _ => VBad end) |}.

(** widening: RAW arguments (any int32 level mask, any uint64 word) against the [-tags debug] build
    only.  The contracts must fire exactly outside the domain (Spec/ContractSpec.v); inside it the
    result is the rank.  Args [T, w]. *)
Definition c03_raw_dom (T w : Z) : bool :=
  (- 2 ^ 31 <=? T) && (T <? 2 ^ 31) && (0 <=? w) && (w <? 2 ^ 64).

Definition pairZ_eqb (a b : Z * Z) : bool := (fst a =? fst b) && (snd a =? snd b).

Definition as_pairZ (v : val) : option (option (Z * Z)) :=
  match v with
  | VPanic => Some None
  | VL [VZ a; VZ b] => Some (Some (a, b))
  | _ => None
  end.
Definition as_optZ (v : val) : option (option Z) :=
  match v with VPanic => Some None | VZ a => Some (Some a) | _ => None end.

Definition op_raw_loose (name : string) : opdef :=
  {| op_name := name;
     op_run := fun a => match a with
       | [VZ T; VZ w] =>
           if c03_raw_dom T w then
             match PathToIndexLoose_debug T w with Some p => vpairZ p | None => VPanic end
           else VBad
       | _ => VBad end;
     op_spec := fun a obs => match a, as_pairZ obs with
       | [VZ T; VZ w], Some o => expect_accepts pairZ_eqb (raw_loose_expect T w) o
       | _, _ => false end |}.

Definition op_raw_strict (name : string) : opdef :=
  {| op_name := name;
     op_run := fun a => match a with
       | [VZ T; VZ w] =>
           if c03_raw_dom T w then
             match PathToIndex_debug T w with Some i => VZ i | None => VPanic end
           else VBad
       | _ => VBad end;
     op_spec := fun a obs => match a, as_optZ obs with
       | [VZ T; VZ w], Some o => expect_accepts Z.eqb (raw_strict_expect T w) o
       | _, _ => false end |}.

(** widening: parent and child in one case, args [T, q, b] with |q| < Height T.  Observation
    [i, s, i', s'] = PathToIndexLoose of q and of q ++ [b].  The specification computes the parent's
    pair from the enumerated / recursive rank and the child's pair from the parent's by the child rule
    (left child: next index; right child: after the left subtree of T >> (|q|+1) stored nodes). *)
Definition c03_child_spec (T : Z) (q : node) (b : bool) : val :=
  let h := c03_h T in
  let i := spec_rank T h q in
  let s := Z.b2z (stored T q) in
  VL [VZ i; VZ s;
      VZ (i + s + (if b then T / 2 ^ (zlen q + 1) else 0));
      VZ (Z.b2z (Z.testbit T (zlen q + 1)))].

Definition op_child (name : string) (dbg : bool) : opdef :=
  {| op_name := name;
     op_run := fun a => match a with
       | [T; q; VZ b] => match as_z T, c03_node q with
           | Some T, Some q =>
               let qb := (q ++ [negb (b =? 0)])%list in
               if c03_dom T qb then
                 let f := if dbg then PathToIndexLoose_debug else PathToIndexLoose in
                 match f T (c03_word T q), f T (c03_word T qb) with
                 | Some (i, s), Some (i', s') => VL [VZ i; VZ s; VZ i'; VZ s']
                 | _, _ => VPanic end
               else VBad
           | _, _ => VBad end
       | _ => VBad end;
     op_spec := fun_spec (fun a => match a with
       | [T; q; VZ b] => match as_z T, c03_node q with
           | Some T, Some q => c03_child_spec T q (negb (b =? 0))
           | _, _ => VBad end
       | _ => VBad end) |}.

(** widening (with C11): from a key to its index.  args [T, s, from]; the height is Height T; the
    implementation computes PathToIndexLoose(T, PathOf(s, from, h)) (resp. PathToIndex when the node's
    level is stored); the specification ranks the node spelled by the key's bits from .. from+h. *)
Definition c03_key_dom (T : Z) (s : list Z) (from : Z) : bool :=
  (1 <=? T) && (T <? 2 ^ 31) && (0 <=? from) && (from + Height T + 7 <? 2 ^ 31) && bytes_okb s.

Definition c03_key_node (T : Z) (s : list Z) (from : Z) : node :=
  firstn (Z.to_nat (clamp (8 * zlen s - from) 0 (Height T))) (skipn (Z.to_nat from) (msb_bits s)).

Definition op_key_loose (name : string) (dbg : bool) : opdef :=
  {| op_name := name;
     op_run := fun a => match a with
       | [VZ T; s; VZ from] => match as_zs s with
           | Some s =>
               if c03_key_dom T s from then
                 match PathOf s from (Height T) with
                 | Some p => match (if dbg then PathToIndexLoose_debug else PathToIndexLoose) T p with
                             | Some r => vpairZ r | None => VPanic end
                 | None => VPanic end
               else VBad
           | None => VBad end
       | _ => VBad end;
     op_spec := fun_spec (fun a => match a with
       | [VZ T; s; VZ from] => match as_zs s with
           | Some s => vpairZ (spec_loose T (c03_h T) (c03_key_node T s from))
           | None => VBad end
       | _ => VBad end) |}.

Definition op_key_strict (name : string) (dbg : bool) : opdef :=
  {| op_name := name;
     op_run := fun a => match a with
       | [VZ T; s; VZ from] => match as_zs s with
           | Some s =>
               if c03_key_dom T s from && stored T (c03_key_node T s from) then
                 match PathOf s from (Height T) with
                 | Some p => match (if dbg then PathToIndex_debug else PathToIndex) T p with
                             | Some i => VZ i | None => VPanic end
                 | None => VPanic end
               else VBad
           | None => VBad end
       | _ => VBad end;
     op_spec := fun_spec (fun a => match a with
       | [VZ T; s; VZ from] => match as_zs s with
           | Some s => VZ (spec_rank T (c03_h T) (c03_key_node T s from))
           | None => VBad end
       | _ => VBad end) |}.

(** SESSION: one level mask, a sequence of lookups executed in order in ONE process (hidden state
    that couples consecutive calls, also across the two functions).  args [T, [[k, q], ...]] with
    k = 0: PathToIndexLoose(q), k = 1: PathToIndex(q) (q on a stored level).  Observation = the list
    of per-step observations (a panic of one step is that step's P).  Model and specification are
    per step: the functions are pure. *)
Definition c03_step_run (dbg : bool) (T : Z) (st : val) : option val :=
  match st with
  | VL [VZ k; q] =>
      match c03_node q with
      | Some q =>
          if c03_dom T q then
            if k =? 0 then
              Some (match (if dbg then PathToIndexLoose_debug else PathToIndexLoose) T (c03_word T q) with
                    | Some p => vpairZ p | None => VPanic end)
            else if (k =? 1) && stored T q then
              Some (match (if dbg then PathToIndex_debug else PathToIndex) T (c03_word T q) with
                    | Some i => VZ i | None => VPanic end)
            else None
          else None
      | None => None
      end
  | _ => None
  end.

Definition c03_step_spec (T : Z) (st : val) : val :=
  match st with
  | VL [VZ k; q] =>
      match c03_node q with
      | Some q => if k =? 0 then vpairZ (spec_loose T (c03_h T) q) else VZ (spec_rank T (c03_h T) q)
      | None => VBad
      end
  | _ => VBad
  end.

Definition op_session (name : string) (dbg : bool) : opdef :=
  {| op_name := name;
     op_run := fun a => match a with
       | [VZ T; VL steps] =>
           match opt_all (map (c03_step_run dbg T) steps) with
           | Some l => VL l
           | None => VBad
           end
       | _ => VBad end;
     op_spec := fun_spec (fun a => match a with
       | [VZ T; VL steps] => VL (map (c03_step_spec T) steps)
       | _ => VBad end) |}.

Definition ops_C03 : list opdef := [
  (* any node: (index, has) *)
  op_loose "bmtree.PathToIndexLoose" false;
  op_loose "bmtree.PathToIndexLoose/debug" true;
  (* a node on a stored level: index *)
  op_strict "bmtree.PathToIndex" false;
  op_strict "bmtree.PathToIndex/debug" true;
  (* raw arguments, debug build: panic exactly outside the domain *)
  op_raw_loose "bmtree.PathToIndexLoose/debug-raw";
  op_raw_strict "bmtree.PathToIndex/debug-raw";
  (* parent and child in one case: the child rule *)
  op_child "bmtree.PathToIndexLoose/child" false;
  op_child "bmtree.PathToIndexLoose/child/debug" true;
  (* from a key to its index: PathOf, then PathToIndexLoose / PathToIndex *)
  op_key_loose "bmtree.PathOf+PathToIndexLoose" false;
  op_key_loose "bmtree.PathOf+PathToIndexLoose/debug" true;
  op_key_strict "bmtree.PathOf+PathToIndex" false;
  op_key_strict "bmtree.PathOf+PathToIndex/debug" true;
  (* sessions: several lookups on one mask in one process *)
  op_session "bmtree.PathToIndex/session" false;
  op_session "bmtree.PathToIndex/session/debug" true
].
