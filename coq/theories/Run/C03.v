(** Protocol operations for C03 (see Lib/Val.v).
    A case is (T, [b0,b1,…]): the level mask and the node; the tree height is
    Height(T).  BOTH sides build the path word (Go: bmtree.NewPath(bits
    left-aligned in h, len, h)).  The same ops are run against the release and
    the [-tags debug] harness; a contract panic is observed as P, which the
    specification rejects. *)
From Coq Require Import ZArith List Bool String.
From Low Require Import Lib.Bits Lib.BitSeq Lib.Lex Lib.Bytes Lib.Val
  Spec.Bmtree Spec.IndexSpec Model.BmtreePath Model.BmtreeIndex.
Import ListNotations.
Open Scope string_scope.
Open Scope Z_scope.

Definition c03_node (v : val) : option node :=
  match as_zs v with
  | Some l => if forallb (fun z => (z =? 0) || (z =? 1)) l then Some (map (fun z => z =? 1) l) else None
  | None => None
  end.

(** domain of the property: 1 <= T < 2^31, |q| <= Height T *)
Definition c03_dom (T : Z) (q : node) : bool :=
  (1 <=? T) && (T <? 2 ^ 31) && (zlen q <=? Height T).

Definition c03_word (T : Z) (q : node) : Z :=
  let h := Height T in NewPath (valL (Z.to_nat h) q) (zlen q) h.

Definition c03_h (T : Z) : nat := Z.to_nat (Height T).

Definition vpairZ (p : Z * Z) : val := VL [VZ (fst p); VZ (snd p)].

(** [dbg] selects the model of the build under test: release (contracts
    compiled out) or [-tags debug] (contracts run first).  The specification
    is the same for both. *)
Definition op_loose (name : string) (dbg : bool) : opdef :=
  {| op_name := name;
     op_run := fun a => match a with
       | [T; q] => match as_z T, c03_node q with
           | Some T, Some q =>
               if c03_dom T q then
                 match (if dbg then PathToIndexLoose_debug else PathToIndexLoose) T (c03_word T q) with
                 | Some p => vpairZ p | None => VPanic end
               else VBad
           | _, _ => VBad end
       | _ => VBad end;
     op_spec := fun_spec (fun a => match a with
       | [T; q] => match as_z T, c03_node q with
           | Some T, Some q => vpairZ (spec_loose T (c03_h T) q)
           | _, _ => VBad end
       | _ => VBad end) |}.

Definition op_strict (name : string) (dbg : bool) : opdef :=
  {| op_name := name;
     op_run := fun a => match a with
       | [T; q] => match as_z T, c03_node q with
           | Some T, Some q =>
               if c03_dom T q && stored T q then
                 match (if dbg then PathToIndex_debug else PathToIndex) T (c03_word T q) with
                 | Some i => VZ i | None => VPanic end
               else VBad
           | _, _ => VBad end
       | _ => VBad end;
     op_spec := fun_spec (fun a => match a with
       | [T; q] => match as_z T, c03_node q with
           | Some T, Some q => VZ (spec_rank T (c03_h T) q)
           | _, _ => VBad end
       | _ => VBad end) |}.

Definition ops_C03 : list opdef := [
  (* any node: (index, has) *)
  op_loose "bmtree.PathToIndexLoose" false;
  op_loose "bmtree.PathToIndexLoose/debug" true;
  (* a node on a stored level: index *)
  op_strict "bmtree.PathToIndex" false;
  op_strict "bmtree.PathToIndex/debug" true
].
