(** Protocol operations for C18 (see Lib/Val.v): one case = one whole call sequence.

    op iohelper.SectionWriter  args [off, n, [call,...], [resp,...]]   NewSectionWriter(mock, off, n)
    op iohelper.AtToWriter     args [off,    [call,...], [resp,...]]   AtToWriter(mock, off)
       call ::= [0,p] Write(p) | [1,p,o] WriteAt(p,o) | [2,o,whence] Seek(o,whence) | [3] Size()
       resp ::= [k,e]   the mock's answer to its next WriteAt: (min k len(p), error class e)
       observation: per call [[return values...], [[absolute offset, bytes] ...]]
       (error classes: 0 nil, 1 io.ErrShortWrite, 2 the mock's own error, 3 errWhence, 4 errOffset)

    Domain (anything else is VBad): 0 <= off, 0 <= n, off + n <= 2^63-1; bytes in [0,256);
    int64 offsets; |whence| < 2^31; k >= 0; e in {0,1,2}. *)
From Coq Require Import ZArith List Bool String.
From Low Require Import Lib.MachInt Lib.BitSeq Lib.Val Model.SectionWriter Spec.SectionWriterSpec.
Import ListNotations.
Open Scope string_scope.
Open Scope Z_scope.

Definition is_i64 (x : Z) : bool := (- 2^63 <=? x) && (x <? 2^63).
Definition is_bytes (p : list Z) : bool := forallb (fun b => (0 <=? b) && (b <? 256)) p.

Definition dec_call (v : val) : option call :=
  match v with
  | VL [VZ 0; p] => match as_zs p with Some p => Some (CWrite p) | None => None end
  | VL [VZ 1; p; VZ o] => match as_zs p with Some p => Some (CWriteAt p o) | None => None end
  | VL [VZ 2; VZ o; VZ wh] => Some (CSeek o wh)
  | VL [VZ 3] => Some CSize
  | _ => None
  end.

Definition call_in_domain (c : call) : bool :=
  match c with
  | CWrite p => is_bytes p
  | CWriteAt p o => is_bytes p && is_i64 o
  | CSeek o wh => is_i64 o && (- 2^31 <? wh) && (wh <? 2^31)
  | CSize => true
  end.

Definition dec_resp (v : val) : option resp :=
  match v with VL [VZ k; VZ e] => Some (k, e) | _ => None end.

Definition resp_in_domain (r : resp) : bool :=
  (0 <=? fst r) && (0 <=? snd r) && (snd r <=? 2).

Definition dec_calls (cs sc : val) : option (list call * list resp) :=
  match cs, sc with
  | VL cs, VL sc =>
      match opt_all (map dec_call cs), opt_all (map dec_resp sc) with
      | Some cs, Some sc =>
          if forallb call_in_domain cs && forallb resp_in_domain sc then Some (cs, sc) else None
      | _, _ => None
      end
  | _, _ => None
  end.

Definition section_in_domain (o n : Z) : bool :=
  (0 <=? o) && (0 <=? n) && (o + n <=? 2^63 - 1).

Definition enc_ucall (u : Z * list Z) : val := VL [VZ (fst u); vzs (snd u)].
Definition enc_out (r : out) : val := VL [vzs (rets r); VL (map enc_ucall (ucalls r))].
Definition enc_aout (r : aout) : val := VL [vzs (fst r); VL (map enc_ucall (snd r))].

(** the abstract machine takes the same calls *)
Definition to_acall (c : call) : acall :=
  match c with
  | CWrite p => AWrite p
  | CWriteAt p o => AWriteAt p o
  | CSeek o wh => ASeek o wh
  | CSize => ASize
  end.

Definition ops_C18 : list opdef := [
  {| op_name := "iohelper.SectionWriter";
     op_run := fun a => match a with
       | [VZ o; VZ n; cs; sc] =>
           match dec_calls cs sc with
           | Some (cs, sc) =>
               if section_in_domain o n
               then VL (map enc_out (run (NewSectionWriter o n) sc cs)) else VBad
           | None => VBad end
       | _ => VBad end;
     op_spec := fun_spec (fun a => match a with
       | [VZ o; VZ n; cs; sc] =>
           match dec_calls cs sc with
           | Some (cs, sc) => VL (map enc_aout (spec_section o n sc (map to_acall cs)))
           | None => VBad end
       | _ => VBad end) |};
  {| op_name := "iohelper.AtToWriter";
     op_run := fun a => match a with
       | [VZ o; cs; sc] =>
           match dec_calls cs sc with
           | Some (cs, sc) =>
               if section_in_domain o 0
               then VL (map enc_out (run (AtToWriter o) sc cs)) else VBad
           | None => VBad end
       | _ => VBad end;
     op_spec := fun_spec (fun a => match a with
       | [VZ o; cs; sc] =>
           match dec_calls cs sc with
           | Some (cs, sc) => VL (map enc_aout (spec_at_to_writer o sc (map to_acall cs)))
           | None => VBad end
       | _ => VBad end) |}
].
