(** Protocol operations for C18 (see Lib/Val.v): one case = one whole call sequence.

    op iohelper.SectionWriter  args [off, n, [call,...], [resp,...]]   NewSectionWriter(mock, off, n)
    op iohelper.AtToWriter     args [off,    [call,...], [resp,...]]   AtToWriter(mock, off)
       call ::= [0,p] Write(p) | [1,p,o] WriteAt(p,o) | [2,o,whence] Seek(o,whence) | [3] Size()
       resp ::= [k,e]   the mock's answer to its next WriteAt: (min k len(p), error class e)
       observation: per call [[return values...], [[absolute offset, bytes] ...]]
       (error classes: 0 nil, 1 io.ErrShortWrite, 2 the mock's own error, 3 errWhence, 4 errOffset)

    Domain (anything else is VBad): 0 <= off, 0 <= n, off + n <= 2^63-1; bytes in [0,256);
    int64 offsets; |whence| < 2^31; k >= 0; e in {0,1,2}.

    Widening (the rest of package iohelper and its use over one file):
    op iohelper.AtToReader     args [file, off, [len,...], [resp,...]]   AtToReader(memfile, off), Read(make([]byte,len))...
       observation: per Read [n, error class, bytes p[:n], [[absolute offset, len asked] ...]]
       (error class 5 = io.EOF; resp [k,e]: the file delivers only the first k of the bytes it has)
    op iohelper.File           args [init, off, n, [call,...], [wresp,...], roff, [len,...], [rresp,...]]
       NewSectionWriter(memfile, off, n) (n = -1: AtToWriter(memfile, off)), the call sequence, then
       AtToReader(memfile, roff) and the Reads.
       observation: [[per call as above ...], file content afterwards, [per Read as above ...]]
       Domain: every byte stored lies below 2^20 (the file is a real byte slice); 0 <= len <= 2^20.
    op iohelper.TwoSections    args [init, off1, n1, off2, n2, [[w,call],...], [wresp,...]]
       NewSectionWriter(memfile, off1, n1) and NewSectionWriter(memfile, off2, n2) over the same file,
       the calls interleaved (w = 0: the first writer, 1: the second).
       observation: [[per call as above ...], file content afterwards]
    op iohelper.Nested         args [init, [[off, n], ...], [[level, call], ...], [wresp, ...]]
       sections of sections: writer 0 = NewSectionWriter(memfile, off_0, n_0), writer i = NewSectionWriter(writer i-1,
       off_i, n_i) (n = -1: AtToWriter); every call is addressed to a level.
       observation: [[per call: return values, (offset, bytes) the FILE received ...], file content afterwards]
    op pbcmpl.File             args [init, kind, [[off, [hasver, ver, payload]], ...]]
       for every placement in turn pbcmpl.Marshal(iohelper.AtToWriter(memfile, off), msg); then for every
       placement pbcmpl.Unmarshal(iohelper.AtToReader(memfile, off), blank message)  (kind: body codec of C06)
       and finally repeated Unmarshal through ONE AtToReader(memfile, smallest off) until the first error or
       (number of placements + 1) frames.
       observation: [[[n, error class] ...], file content, [[n, version, error class, payload] ...], [stream steps likewise]]
       (error classes of C06: 0 nil, 1 io.EOF, 2 io.ErrUnexpectedEOF, 3/4 invalid header/body size, 6 decode)
       Domain: 0 <= off, every frame ends below 2^20; kind 1 (BytesValue): the frames do not overlap. *)
From Coq Require Import ZArith List Bool String.
From Low Require Import Lib.MachInt Lib.BitSeq Lib.Val Model.SectionWriter Spec.SectionWriterSpec
  Model.MemFile Model.SectionReader Spec.SectionReaderSpec Model.SectionPair Spec.SectionPairSpec
  Model.Pbcmpl Spec.PbcmplSpec Model.PbcmplFile Spec.PbcmplFileSpec Run.PbcmplOps
  Model.SectionNest Spec.SectionNestSpec.
Import ListNotations.
Open Scope string_scope.
Open Scope Z_scope.

Definition is_i64 (x : Z) : bool := (- 2^63 <=? x) && (x <? 2^63).
Definition is_bytes (p : list Z) : bool := forallb (fun b => (0 <=? b) && (b <? 256)) p.

Definition dec_call (v : val) : option call :=
  match v with
  | VL [VZ 0; p] => match as_zs p with Some p => Some (CWrite p) | None => None end
  | VL [VZ 1; p; VZ o] => match as_zs p with Some p => Some (CWriteAt p o) | None => None end
  | VL [VZ 2; VZ o; VZ wh] => Some (CSeek o wh)
  | VL [VZ 3] => Some CSize
  | _ => None
  end.

Definition call_in_domain (c : call) : bool :=
  match c with
  | CWrite p => is_bytes p
  | CWriteAt p o => is_bytes p && is_i64 o
  | CSeek o wh => is_i64 o && (- 2^31 <? wh) && (wh <? 2^31)
  | CSize => true
  end.

Definition dec_resp (v : val) : option resp :=
  match v with VL [VZ k; VZ e] => Some (k, e) | _ => None end.

Definition resp_in_domain (r : resp) : bool :=
  (0 <=? fst r) && (0 <=? snd r) && (snd r <=? 2).

Definition dec_calls (cs sc : val) : option (list call * list resp) :=
  match cs, sc with
  | VL cs, VL sc =>
      match opt_all (map dec_call cs), opt_all (map dec_resp sc) with
      | Some cs, Some sc =>
          if forallb call_in_domain cs && forallb resp_in_domain sc then Some (cs, sc) else None
      | _, _ => None
      end
  | _, _ => None
  end.

Definition section_in_domain (o n : Z) : bool :=
  (0 <=? o) && (0 <=? n) && (o + n <=? 2^63 - 1).

Definition enc_ucall (u : Z * list Z) : val := VL [VZ (fst u); vzs (snd u)].
Definition enc_out (r : out) : val := VL [vzs (rets r); VL (map enc_ucall (ucalls r))].
Definition enc_aout (r : aout) : val := VL [vzs (fst r); VL (map enc_ucall (snd r))].

(** the abstract machine takes the same calls *)
Definition enc_rout (r : rout) : val :=
  VL [VZ (rcount r); VZ (rerr r); vzs (rbytes r); VL (map (fun c => VL [VZ (fst c); VZ (snd c)]) (rcalls r))].
Definition enc_arout (r : arout) : val :=
  let '(n, e, bs, cs) := r in
  VL [VZ n; VZ e; vzs bs; VL (map (fun c => VL [VZ (fst c); VZ (snd c)]) cs)].

Definition file_limit : Z := 2^20.

Definition rresp_in_domain (r : resp) : bool :=
  (0 <=? fst r) && (0 <=? snd r) && ((snd r <=? 2) || (snd r =? 5)).

Definition dec_reads (lens sc : val) : option (list Z * list resp) :=
  match as_zs lens, sc with
  | Some lens, VL sc =>
      match opt_all (map dec_resp sc) with
      | Some sc =>
          if forallb (fun l => (0 <=? l) && (l <=? file_limit)) lens && forallb rresp_in_domain sc
          then Some (lens, sc) else None
      | None => None
      end
  | _, _ => None
  end.

Definition dec_wcall (v : val) : option wcall :=
  match v with
  | VL [VZ w; c] => match dec_call c with Some c => Some (w, c) | None => None end
  | _ => None
  end.

Definition dec_wcalls (wcs sc : val) : option (list wcall * list resp) :=
  match wcs, sc with
  | VL wcs, VL sc =>
      match opt_all (map dec_wcall wcs), opt_all (map dec_resp sc) with
      | Some wcs, Some sc =>
          if forallb (fun wc => ((fst wc =? 0) || (fst wc =? 1)) && call_in_domain (snd wc)) wcs
             && forallb resp_in_domain sc
          then Some (wcs, sc) else None
      | _, _ => None
      end
  | _, _ => None
  end.

(** every byte a call sequence stores lies below [file_limit] *)
Definition outs_small (outs : list out) : bool :=
  forallb (fun r => forallb (fun u => fst u + zlen (snd u) <=? file_limit) (ucalls r)) outs.

Definition to_acall (c : call) : acall :=
  match c with
  | CWrite p => AWrite p
  | CWriteAt p o => AWriteAt p o
  | CSeek o wh => ASeek o wh
  | CSize => ASize
  end.

Definition dec_placement (v : val) : option placement :=
  match v with
  | VL [VZ off; m] => match as_msg m with Some m => Some (off, m) | None => None end
  | _ => None
  end.

Definition placement_in_domain (kind : Z) (p : placement) : bool :=
  (0 <=? fst p) && (fst p + 32 + zlen (k_enc kind (snd (snd p))) <=? file_limit).

(** kind 1 (wrappers.BytesValue): the modelled decoder covers intact bodies only, so the frames
    must not overlap *)
Fixpoint placements_disjoint (kind : Z) (ps : list placement) : bool :=
  match ps with
  | [] => true
  | p :: t =>
      forallb (fun q =>
        let pe := fst p + 32 + zlen (k_enc kind (snd (snd p))) in
        let qe := fst q + 32 + zlen (k_enc kind (snd (snd q))) in
        (pe <=? fst q) || (qe <=? fst p)) t && placements_disjoint kind t
  end.

Definition min_off (ps : list placement) : Z := fold_right (fun p m => Z.min (fst p) m) file_limit ps.

Definition enc_mres (r : Z * option perr) : val := VL [VZ (fst r); v_err (snd r)].
Definition enc_ures (r : Z * list Z * option perr * list Z) : val :=
  let '(n, ver, err, p) := r in VL [VZ n; vzs ver; v_err err; vzs p].

Definition dec_window (v : val) : option (Z * Z) :=
  match v with
  | VL [VZ o; VZ n] => Some (o, if n =? -1 then 2^63 - 1 - o else n)
  | _ => None
  end.

Definition dec_lcall (v : val) : option (nat * call) :=
  match v with
  | VL [VZ l; c] => match dec_call c with Some c => Some (Z.to_nat l, c) | None => None end
  | _ => None
  end.

Definition to_lacall (lc : nat * call) : nat * acall := (fst lc, to_acall (snd lc)).

Definition to_wacall (wc : wcall) : Z * acall := (fst wc, to_acall (snd wc)).

Definition ops_C18 : list opdef := [
  {| op_name := "iohelper.SectionWriter";
     op_run := fun a => match a with
       | [VZ o; VZ n; cs; sc] =>
           match dec_calls cs sc with
           | Some (cs, sc) =>
               if section_in_domain o n
               then VL (map enc_out (run (NewSectionWriter o n) sc cs)) else VBad
           | None => VBad end
       | _ => VBad end;
     op_spec := fun_spec (fun a => match a with
       | [VZ o; VZ n; cs; sc] =>
           match dec_calls cs sc with
           | Some (cs, sc) => VL (map enc_aout (spec_section o n sc (map to_acall cs)))
           | None => VBad end
       | _ => VBad end) |};
  {| op_name := "iohelper.AtToWriter";
     op_run := fun a => match a with
       | [VZ o; cs; sc] =>
           match dec_calls cs sc with
           | Some (cs, sc) =>
               if section_in_domain o 0
               then VL (map enc_out (run (AtToWriter o) sc cs)) else VBad
           | None => VBad end
       | _ => VBad end;
     op_spec := fun_spec (fun a => match a with
       | [VZ o; cs; sc] =>
           match dec_calls cs sc with
           | Some (cs, sc) => VL (map enc_aout (spec_at_to_writer o sc (map to_acall cs)))
           | None => VBad end
       | _ => VBad end) |};
  {| op_name := "iohelper.AtToReader";
     op_run := fun a => match a with
       | [f; VZ o; lens; sc] =>
           match as_zs f, dec_reads lens sc with
           | Some f, Some (lens, sc) =>
               if is_bytes f && (0 <=? o) && (o <=? 2^63 - 1)
               then VL (map enc_rout (rrun (AtToReader o) f sc lens)) else VBad
           | _, _ => VBad end
       | _ => VBad end;
     op_spec := fun_spec (fun a => match a with
       | [f; VZ o; lens; sc] =>
           match as_zs f, dec_reads lens sc with
           | Some f, Some (lens, sc) => VL (map enc_arout (spec_at_to_reader o f sc lens))
           | _, _ => VBad end
       | _ => VBad end) |};
  {| op_name := "iohelper.File";
     op_run := fun a => match a with
       | [init; VZ o; VZ n; cs; wsc; VZ ro; lens; rsc] =>
           match as_zs init, dec_calls cs wsc, dec_reads lens rsc with
           | Some init, Some (cs, wsc), Some (lens, rsc) =>
               if is_bytes init && (zlen init <=? file_limit) && (0 <=? ro) && (ro <=? 2^63 - 1) &&
                  (if n =? -1 then section_in_domain o 0 else section_in_domain o n)
               then
                 let outs := run (if n =? -1 then AtToWriter o else NewSectionWriter o n) wsc cs in
                 if outs_small outs then
                   let f := file_after init outs in
                   VL [VL (map enc_out outs); vzs f; VL (map enc_rout (rrun (AtToReader ro) f rsc lens))]
                 else VBad
               else VBad
           | _, _, _ => VBad end
       | _ => VBad end;
     op_spec := fun_spec (fun a => match a with
       | [init; VZ o; VZ n; cs; wsc; VZ ro; lens; rsc] =>
           match as_zs init, dec_calls cs wsc, dec_reads lens rsc with
           | Some init, Some (cs, wsc), Some (lens, rsc) =>
               let aouts := if n =? -1 then spec_at_to_writer o wsc (map to_acall cs)
                            else spec_section o n wsc (map to_acall cs) in
               let f := spec_file_after init aouts in
               VL [VL (map enc_aout aouts); vzs f; VL (map enc_arout (spec_at_to_reader ro f rsc lens))]
           | _, _, _ => VBad end
       | _ => VBad end) |};
  {| op_name := "iohelper.TwoSections";
     op_run := fun a => match a with
       | [init; VZ o1; VZ n1; VZ o2; VZ n2; wcs; wsc] =>
           match as_zs init, dec_wcalls wcs wsc with
           | Some init, Some (wcs, wsc) =>
               if is_bytes init && (zlen init <=? file_limit) &&
                  section_in_domain o1 n1 && section_in_domain o2 n2
               then
                 let outs := run2 (NewSectionWriter o1 n1, NewSectionWriter o2 n2) wsc wcs in
                 if outs_small outs
                 then VL [VL (map enc_out outs); vzs (file_after init outs)]
                 else VBad
               else VBad
           | _, _ => VBad end
       | _ => VBad end;
     op_spec := fun_spec (fun a => match a with
       | [init; VZ o1; VZ n1; VZ o2; VZ n2; wcs; wsc] =>
           match as_zs init, dec_wcalls wcs wsc with
           | Some init, Some (wcs, wsc) =>
               let aouts := spec_two_sections o1 n1 o2 n2 wsc (map to_wacall wcs) in
               VL [VL (map enc_aout aouts); vzs (spec_file_after init aouts)]
           | _, _ => VBad end
       | _ => VBad end) |};
  {| op_name := "iohelper.Nested";
     op_run := fun a => match a with
       | [init; VL ws; VL lcs; VL wsc] =>
           match as_zs init, opt_all (map dec_window ws), opt_all (map dec_lcall lcs), opt_all (map dec_resp wsc) with
           | Some init, Some ws, Some lcs, Some wsc =>
               if is_bytes init && (zlen init <=? file_limit) &&
                  forallb (fun w => section_in_domain (fst w) (snd w)) ws &&
                  forallb (fun lc => (Nat.ltb (fst lc) (List.length ws)) && call_in_domain (snd lc)) lcs &&
                  forallb resp_in_domain wsc
               then
                 let outs := runN (map (fun w => NewSectionWriter (fst w) (snd w)) ws) wsc lcs in
                 if outs_small outs then VL [VL (map enc_out outs); vzs (file_after init outs)] else VBad
               else VBad
           | _, _, _, _ => VBad end
       | _ => VBad end;
     op_spec := fun_spec (fun a => match a with
       | [init; VL ws; VL lcs; VL wsc] =>
           match as_zs init, opt_all (map dec_window ws), opt_all (map dec_lcall lcs), opt_all (map dec_resp wsc) with
           | Some init, Some ws, Some lcs, Some wsc =>
               let aouts := spec_nested ws wsc (map to_lacall lcs) in
               VL [VL (map enc_aout aouts); vzs (spec_file_after init aouts)]
           | _, _, _, _ => VBad end
       | _ => VBad end) |};
  {| op_name := "pbcmpl.File";
     op_run := fun a => match a with
       | [init; VZ kind; VL ps] =>
           match as_zs init, opt_all (map dec_placement ps) with
           | Some init, Some ps =>
               if is_bytes init && (zlen init <=? file_limit) && kind_ok kind &&
                  forallb (placement_in_domain kind) ps &&
                  (negb (kind =? 1) || placements_disjoint kind ps)
               then
                 match marshal_all kind init ps with
                 | None => VPanic
                 | Some (rs, f) =>
                     match unmarshal_all kind f (map fst ps), StreamAt kind f (min_off ps) (S (List.length ps)) with
                     | Some us, Some st =>
                         VL [VL (map enc_mres rs); vzs f; VL (map enc_ures us); VL (map enc_ures st)]
                     | _, _ => VPanic
                     end
                 end
               else VBad
           | _, _ => VBad end
       | _ => VBad end;
     op_spec := fun_spec (fun a => match a with
       | [init; VZ kind; VL ps] =>
           match as_zs init, opt_all (map dec_placement ps) with
           | Some init, Some ps =>
               match spec_marshal_all kind init ps with
               | None => VPanic
               | Some (rs, f) =>
                   VL [VL (map enc_mres rs); vzs f;
                       VL (map (fun p => enc_ures (spec_unmarshal_at kind f (fst p))) ps);
                       VL (map enc_ures (spec_stream_at kind f (min_off ps) (S (List.length ps))))]
               end
           | _, _ => VBad end
       | _ => VBad end) |}
].
