(** Protocol operations of the C01 widening (appended to [ops_C01] in Run/C01.v). *)
From Coq Require Import ZArith List Bool String.
From Low Require Import Lib.MachInt Lib.Bits Lib.BitSeq Lib.Val Model.Rank Model.Rank32 Model.RankOps Model.RankSession Spec.RankSessionSpec
  Spec.RankSpec Spec.RankLawsSpec.
Import ListNotations.
Open Scope string_scope.
Open Scope Z_scope.

Definition vq (o : option (Z * Z)) : val :=
  match o with Some p => VL [VZ (fst p); VZ (snd p)] | None => VPanic end.
Definition voz (o : option Z) : val := match o with Some z => VZ z | None => VPanic end.

Definition as_flavour (v : val) : option flavour :=
  match v with
  | VZ 0 => Some (F64 false) | VZ 1 => Some (F64 true) | VZ 2 => Some F128
  | _ => None
  end.

Definition in_i32b (i : Z) : bool := (- 2^31 <=? i) && (i <? 2^31).

Definition as_pair (v : val) : option (Z * Z) :=
  match v with VL [VZ a; VZ b] => Some (a, b) | _ => None end.
Definition as_pairs (v : val) : option (list (Z * Z)) :=
  match v with VL l => opt_all (map as_pair l) | _ => None end.

Definition as_hstep (v : val) : option hstep :=
  match v with
  | VL [VZ 0; f; VZ b; VZ i] => match as_flavour f with Some f => Some (HQ f b i) | None => None end
  | VL [VZ 1; VZ b; VZ k; VZ w] => Some (HSet b k w)
  | _ => None
  end.
Definition as_hsteps (v : val) : option (list hstep) :=
  match v with VL l => opt_all (map as_hstep l) | _ => None end.

Definition vhobs (o : hobs) : val := match o with OQ q => vq q | OT t => voz t end.
Definition vhist (o : option (list hobs)) : val :=
  match o with Some l => VL (map vhobs l) | None => VBad end.

Definition hstep_okb (s : hstep) : bool :=
  match s with HQ _ _ i => in_i32b i | HSet _ _ w => word_okb w end.

(** the property speaks about positions inside the bitmap (for the 128-bit flavour: below 2^31 - 64, where [i + 64] is still
    an int32); elsewhere the specification is silent and only model = implementation is compared (a panic, as of now) *)
Definition spec_any_ok (for128 : bool) (ws : list Z) (i : Z) (obs : val) : bool :=
  if pos_in ws i && (negb for128 || (i <? 2^31 - 64)) then val_eqb (vq (spec_query ws i)) obs else true.

Definition as_sstep (v : val) : option (flavour * list (Z * Z)) :=
  match v with
  | VL [f; runs] => match as_flavour f, as_pairs runs with Some f, Some r => Some (f, r) | _, _ => None end
  | _ => None
  end.
Definition as_ssteps (v : val) : option (list (flavour * list (Z * Z))) :=
  match v with VL l => opt_all (map as_sstep l) | _ => None end.
Definition as_rles (v : val) : option (list (list (Z * Z))) :=
  match v with VL l => opt_all (map as_pairs l) | _ => None end.
Definition vsstep (p : list Z * option (Z * Z)) : val := VL [vzs (fst p); vq (snd p)].

Definition ops_C01_wide : list opdef := [
  (* a session: many index builds in one process, each returned index reported, used for one query and then
     overwritten with junk by the caller; the whole list [reps] times *)
  {| op_name := "bitmap.IndexRank/session";
     op_run := fun a => match a with
       | [steps; reps] => match as_ssteps steps, as_z reps with
           | Some steps, Some reps =>
               if (0 <=? reps) && (reps <=? 8) then VL (map vsstep (session steps (Z.to_nat reps))) else VBad
           | _, _ => VBad end
       | _ => VBad end;
     op_spec := fun_spec (fun a => match a with
       | [steps; reps] => match as_ssteps steps, as_z reps with
           | Some steps, Some reps =>
               VL (map (fun s => VL [vzs (spec_index_rle (fst s) (snd s));
                                     vq (spec_query (expand_runs (snd s)) (64 * zlen (expand_runs (snd s)) - 1))])
                       (repeat_list steps (Z.to_nat reps)))
           | _, _ => VBad end
       | _ => VBad end) |};
  (* the same bitmaps indexed from several goroutines at once: sampled entries of what a single caller gets, and
     one flag per concurrent call (1 = equal to the single caller's index) *)
  {| op_name := "bitmap.IndexRank64/concurrent";
     op_run := fun a => match a with
       | [bms; tr; stride; ncalls] => match as_rles bms, as_bool tr, as_z stride, as_z ncalls with
           | Some bms, Some tr, Some stride, Some ncalls =>
               if (1 <=? stride) && (0 <=? ncalls) && (ncalls <=? 1000) then
                 let r := concurrent bms tr (Z.to_nat stride) (Z.to_nat ncalls) in
                 VL [VL (map vzs (fst r)); vzs (snd r)]
               else VBad
           | _, _, _, _ => VBad end
       | _ => VBad end;
     op_spec := fun_spec (fun a => match a with
       | [bms; tr; stride; ncalls] => match as_rles bms, as_bool tr, as_z stride, as_z ncalls with
           | Some bms, Some tr, Some stride, Some ncalls =>
               VL [VL (map (fun runs => vzs (sample_every (Z.to_nat stride) (spec_index_rle (F64 tr) runs))) bms);
                   vzs (repeat 1 (Z.to_nat ncalls))]
           | _, _, _, _ => VBad end
       | _ => VBad end) |};
  (* any int32 position, inside or outside the bitmap, through the int32-faithful model *)
  {| op_name := "bitmap.Rank/any";
     op_run := fun a => match a with
       | [ws; f; i] => match as_zs ws, as_flavour f, as_z i with
           | Some ws, Some f, Some i => if in_i32b i then vq (query32 f ws i) else VBad
           | _, _, _ => VBad end
       | _ => VBad end;
     op_spec := fun a obs => match a with
       | [ws; f; i] => match as_zs ws, as_flavour f, as_z i with
           | Some ws, Some f, Some i => spec_any_ok (is128 f) ws i obs
           | _, _, _ => false end
       | _ => false end |};
  (* the three flavours at two positions i <= j plus the trailing total: judged by the laws alone *)
  {| op_name := "bitmap.Rank/laws";
     op_run := fun a => match a with
       | [ws; i; j] => match as_zs ws, as_z i, as_z j with
           | Some ws, Some i, Some j =>
               if (0 <=? i) && (i <=? j) && (j <? 64 * zlen ws) then
                 VL [VL (map (fun f => vq (query f ws i)) flavours);
                     VL (map (fun f => vq (query f ws j)) flavours);
                     voz (trailing_total ws)]
               else VBad
           | _, _, _ => VBad end
       | _ => VBad end;
     op_spec := fun a obs => match a, obs with
       | [ws; i; j], VL [qi; qj; VZ tot] => match as_zs ws, as_z i, as_z j, as_pairs qi, as_pairs qj with
           | Some ws, Some i, Some j, Some qi, Some qj =>
               (List.length qi =? 3)%nat && (List.length qj =? 3)%nat && law_check (64 * zlen ws) i j qi qj tot
           | _, _, _, _, _ => false end
       | _, _ => false end |};
  (* a bitmap kept in two pieces with their own indexes, against the index of the concatenation *)
  {| op_name := "bitmap.Rank/concat";
     op_run := fun a => match a with
       | [wa; wb; f; i] => match as_zs wa, as_zs wb, as_flavour f, as_z i with
           | Some wa, Some wb, Some f, Some i =>
               if (0 <=? i) && (i <? 64 * (zlen wa + zlen wb)) then
                 VL [vq (query f (wa ++ wb) i); vq (query_parts f wa wb i)]
               else VBad
           | _, _, _, _ => VBad end
       | _ => VBad end;
     op_spec := fun_spec (fun a => match a with
       | [wa; wb; f; i] => match as_zs wa, as_zs wb, as_z i with
           | Some wa, Some wb, Some i =>
               VL [vq (spec_query (wa ++ wb) i); vq (spec_query (wa ++ wb) i)]
           | _, _, _ => VBad end
       | _ => VBad end) |};
  (* the three indexes of one bitmap side by side: prefix sums of the per-word bit counts *)
  {| op_name := "bitmap.IndexRank/all";
     op_run := fun a => match a with
       | [ws] => match as_zs ws with
           | Some ws => VL [vzs (IndexRank64 ws false); vzs (IndexRank64 ws true); vzs (IndexRank128 ws)]
           | _ => VBad end
       | _ => VBad end;
     op_spec := fun_spec (fun a => match a with
       | [ws] => match as_zs ws with
           | Some ws => let '(x, y, z) := spec_indexes ws in VL [vzs x; vzs y; vzs z]
           | _ => VBad end
       | _ => VBad end) |};
  (* rank0: the bitmap and its complement (every word negated) at the same position: counts add up to i, bits to 1 *)
  {| op_name := "bitmap.Rank/complement";
     op_run := fun a => match a with
       | [ws; f; i] => match as_zs ws, as_flavour f, as_z i with
           | Some ws, Some f, Some i =>
               if (0 <=? i) && (i <? 64 * zlen ws) then VL [vq (query f ws i); vq (query f (map not64 ws) i)] else VBad
           | _, _, _ => VBad end
       | _ => VBad end;
     op_spec := fun a obs => match a, obs with
       | [ws; f; i], VL [q; q'] => match as_z i, as_pair q, as_pair q' with
           | Some i, Some (r, b), Some (r', b') => (r + r' =? i) && (b + b' =? 1) && (0 <=? r) && (0 <=? r')
           | _, _, _ => false end
       | _, _ => false end |};
  (* the same on a run-length encoded bitmap [[count, word], ...] (large bitmaps with long constant runs) *)
  {| op_name := "bitmap.IndexRank/rle";
     op_run := fun a => match a with
       | [runs] => match as_pairs runs with
           | Some runs => let ws := expand_rle runs in
               VL [vzs (IndexRank64 ws false); vzs (IndexRank64 ws true); vzs (IndexRank128 ws)]
           | _ => VBad end
       | _ => VBad end;
     op_spec := fun_spec (fun a => match a with
       | [runs] => match as_pairs runs with
           | Some runs => let '(x, y, z) := spec_indexes (expand_rle runs) in VL [vzs x; vzs y; vzs z]
           | _ => VBad end
       | _ => VBad end) |};
  {| op_name := "bitmap.Rank/rle";
     op_run := fun a => match a with
       | [runs; f; i] => match as_pairs runs, as_flavour f, as_z i with
           | Some runs, Some f, Some i => if in_i32b i then vq (query32 f (expand_rle runs) i) else VBad
           | _, _, _ => VBad end
       | _ => VBad end;
     op_spec := fun a obs => match a with
       | [runs; f; i] => match as_pairs runs, as_flavour f, as_z i with
           | Some runs, Some f, Some i => spec_any_ok (is128 f) (expand_rle runs) i obs
           | _, _, _ => false end
       | _ => false end |};
  (* histories: several bitmaps with held indexes, queried in any order, words overwritten in place *)
  {| op_name := "bitmap.Rank/history";
     op_run := fun a => match a with
       | [bms; steps] => match as_zss bms, as_hsteps steps with
           | Some bms, Some steps =>
               if forallb hstep_okb steps then vhist (hrun (map build bms) steps) else VBad
           | _, _ => VBad end
       | _ => VBad end;
     op_spec := fun_spec (fun a => match a with
       | [bms; steps] => match as_zss bms, as_hsteps steps with
           | Some bms, Some steps => vhist (spec_hrun bms steps)
           | _, _ => VBad end
       | _ => VBad end) |}
].
