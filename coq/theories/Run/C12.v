(** Protocol operations for C12 (see Lib/Val.v).
    [bitmap.Of]         [ps; opt]      opt = [] or [n]          -> words
    [bitmap.ToArray]    [ws]                                    -> positions
    [bitmap.Of/ToArray] [ps; opt]      ToArray(Of(ps, opt...))  -> positions
    [bitmap.ToArray/Of] [ws]           Of(ToArray(ws))          -> words (= ws without trailing zero words)
    [bitmap.Get]        [ws; i]        i inside                 -> [Get; Get1]
    [bitmap.SafeGet]    [ws; i]        any int32 i              -> [SafeGet; SafeGet1]
    [bitmap.OfMany]     [subs; sizes]  whole non-panic domain (ofmany_dom2: positions >= size in any segment) -> words
    [bitmap.Builder]    [n; [op...]]   op = [0; ps; size] (Extend) | [1; p; v] (Set)
                                       -> [[Words; Offset] after NewBuilder and after every call]
    widening (neighbouring code of package bitmap):
    [bitmap.Mask]       [i]            any int i                -> [Mask[i]; RMask[i]]           (P outside 0..64)
    [bitmap.Bit]        [i]            any int i                -> [MaskUpto[i]; RMaskUpto[i]; Bit[i]; RBit[i]]  (P outside 0..63)
    [bitmap.Fmt/c12]      [sz; signed; slice; xs]  Fmt of one integer (slice = 0, xs = [x]) or of a slice of integers of
                                       sz bytes (1,2,4,8; signed only tells the harness which Go type to build);
                                       any other sz = a non-integer type (string / []string)  -> the string (P = panic)
    [bitmap.Of/query]   [ps; opt; tr; i; e]   r = Of(ps, opt...), 0 <= i <= e <= 64 len(r), i < 64 len(r), 1 <= e
                                       -> [Rank64(r, IndexRank64(r, tr), i); Rank128(r, IndexRank128(r), i);
                                           NextOne(r, i, e); PrevOne(r, i, e)]
    [bitmap.Builder/query] [n; ops; tr; i; e]  the same four queries on Words after the history
    [bitmap.OfMany/asOf] [subs; sizes] equal lengths; positions >= size allowed in ANY segment (the shifted concatenation
                                       need not be ascending, Of may panic)  -> [1] if OfMany(subs, sizes) and
                                       Of(shifted concatenation, sum of sizes) agree (same words, or both panic), else [0; a; b].
                                       Only the RELATION is observed, so Of's behaviour outside its own domain is not pinned.
    [bitmap.Builder/asOfMany] [n; subs; sizes]  ascending shifted concatenation: NewBuilder(n) + one Extend per segment
                                       -> [same words; same words after removing trailing zero words; Offset = sum of sizes;
                                           OfMany; Words; Offset]  (whole non-panic domain of OfMany; word-for-word
                                           equality is required only where the shifted concatenation is ascending) *)
From Coq Require Import ZArith List Bool String.
From Low Require Import Lib.Bits Lib.BitSeq Lib.Val Model.BuilderOps Model.BitmapOf Spec.OfSpec
  Model.BitmapMask12 Spec.MaskSpec12 Model.BitmapFmt12 Spec.FmtSpec12
  Model.Rank Model.BitmapNext Spec.OfQuerySpec Model.BuilderMem Spec.BuilderMemSpec.
Import ListNotations.
Open Scope string_scope.
Open Scope Z_scope.

Definition as_opt (v : val) : option (option Z) :=
  match v with
  | VL [] => Some None
  | VL [VZ n] => Some (Some n)
  | _ => None
  end.

Definition as_bop (v : val) : option bop :=
  match v with
  | VL [VZ 0; ps; VZ size] => match as_zs ps with Some ps => Some (BExtend ps size) | None => None end
  | VL [VZ 1; VZ p; VZ v] => Some (BSet p v)
  | _ => None
  end.
Definition as_bops (v : val) : option (list bop) :=
  match v with VL l => opt_all (map as_bop l) | _ => None end.

Definition vwords (o : option (list Z)) : val := match o with Some r => vzs r | None => VPanic end.
Definition vbuilder (b : builder) : val := VL [vzs (Words b); VZ (Offset b)].

Definition of_dom (ps : list Z) : bool := sortedb ps && nonnegb ps.

Definition bind {A B} (o : option A) (f : A -> option B) : option B :=
  match o with Some x => f x | None => None end.

(** obs must be a list of [Words; Offset] pairs, one per abstract state, each accepted *)
Fixpoint builder_hist_ok (abs_states : list abs) (obs : list val) : bool :=
  match abs_states, obs with
  | [], [] => true
  | a :: at_, VL [ws; VZ off] :: ot =>
      match as_zs ws with
      | Some ws => builder_okb a ws off && builder_hist_ok at_ ot
      | None => false
      end
  | _, _ => false
  end.

Definition ops_C12_core : list opdef := [
  {| op_name := "bitmap.Of";
     op_run := fun a => match a with
       | [ps; opt] => match as_zs ps, as_opt opt with
           | Some ps, Some opt => if of_dom ps then vwords (Of ps opt) else VBad
           | _, _ => VBad end
       | _ => VBad end;
     op_spec := fun a obs => match a with
       | [ps; opt] => match as_zs ps, as_opt opt, as_zs obs with
           | Some ps, Some opt, Some r => spec_Of_ok ps opt r
           | _, _, _ => false end
       | _ => false end |};
  {| op_name := "bitmap.ToArray";
     op_run := fun a => match a with
       | [ws] => match as_zs ws with
           | Some ws => if words_okb ws then vwords (ToArray ws) else VBad
           | _ => VBad end
       | _ => VBad end;
     op_spec := fun_spec (fun a => match a with
       | [ws] => match as_zs ws with Some ws => vzs (spec_ToArray ws) | _ => VBad end
       | _ => VBad end) |};
  {| op_name := "bitmap.Of/ToArray";
     op_run := fun a => match a with
       | [ps; opt] => match as_zs ps, as_opt opt with
           | Some ps, Some opt => if of_dom ps then vwords (bind (Of ps opt) ToArray) else VBad
           | _, _ => VBad end
       | _ => VBad end;
     op_spec := fun_spec (fun a => match a with
       | [ps; opt] => match as_zs ps with Some ps => vzs (usort ps) | _ => VBad end
       | _ => VBad end) |};
  {| op_name := "bitmap.ToArray/Of";
     op_run := fun a => match a with
       | [ws] => match as_zs ws with
           | Some ws => if words_okb ws then vwords (bind (ToArray ws) (fun l => Of l None)) else VBad
           | _ => VBad end
       | _ => VBad end;
     op_spec := fun_spec (fun a => match a with
       | [ws] => match as_zs ws with Some ws => vzs (strip0 ws) | _ => VBad end
       | _ => VBad end) |};
  {| op_name := "bitmap.Get";
     op_run := fun a => match a with
       | [ws; i] => match as_zs ws, as_z i with
           | Some ws, Some i =>
               if words_okb ws && inside ws i then
                 match Get ws i, Get1 ws i with
                 | Some x, Some y => VL [VZ x; VZ y]
                 | _, _ => VPanic end
               else VBad
           | _, _ => VBad end
       | _ => VBad end;
     op_spec := fun_spec (fun a => match a with
       | [ws; i] => match as_zs ws, as_z i with
           | Some ws, Some i => VL [VZ (spec_Get ws i); VZ (spec_Get1 ws i)]
           | _, _ => VBad end
       | _ => VBad end) |};
  {| op_name := "bitmap.SafeGet";
     op_run := fun a => match a with
       | [ws; i] => match as_zs ws, as_z i with
           | Some ws, Some i =>
               if words_okb ws && (- 2^31 <=? i) && (i <? 2^31) then
                 match SafeGet ws i, SafeGet1 ws i with
                 | Some x, Some y => VL [VZ x; VZ y]
                 | _, _ => VPanic end
               else VBad
           | _, _ => VBad end
       | _ => VBad end;
     op_spec := fun_spec (fun a => match a with
       | [ws; i] => match as_zs ws, as_z i with
           | Some ws, Some i => VL [VZ (spec_SafeGet ws i); VZ (spec_SafeGet1 ws i)]
           | _, _ => VBad end
       | _ => VBad end) |};
  {| op_name := "bitmap.OfMany";
     op_run := fun a => match a with
       | [subs; sizes] => match as_zss subs, as_zs sizes with
           | Some subs, Some sizes => if ofmany_dom2 subs sizes then vwords (OfMany subs sizes) else VBad
           | _, _ => VBad end
       | _ => VBad end;
     op_spec := fun a obs => match a with
       | [subs; sizes] => match as_zss subs, as_zs sizes, as_zs obs with
           | Some subs, Some sizes, Some r => spec_OfMany_ok subs sizes r
           | _, _, _ => false end
       | _ => false end |};
  {| op_name := "bitmap.Builder";
     op_run := fun a => match a with
       | [n; ops] => match as_z n, as_bops ops with
           | Some n, Some ops =>
               if (0 <=? n) && forallb bop_dom ops then
                 match bind (NewBuilder n) (fun b => brun b ops) with
                 | Some bs => VL (map vbuilder bs)
                 | None => VPanic end
               else VBad
           | _, _ => VBad end
       | _ => VBad end;
     op_spec := fun a obs => match a with
       | [n; ops] => match as_bops ops, obs with
           | Some ops, VL obs => builder_hist_ok (arun {| abits := []; aoff := 0 |} ops) obs
           | _, _ => false end
       | _ => false end |}
].

(** * widening: the exported mask tables (bitmap/mask.go), read by Get/SafeGet (Bit) and by C01/C02/C13/C14 *)
Definition vmask (o : option (Z * Z)) : val :=
  match o with Some (a, b) => VL [VZ a; VZ b] | None => VPanic end.
Definition vbit (o : option (Z * Z * Z * Z)) : val :=
  match o with Some (a, b, c, d) => VL [VZ a; VZ b; VZ c; VZ d] | None => VPanic end.

Definition ops_C12_wide : list opdef := [
  {| op_name := "bitmap.Mask";
     op_run := fun a => match a with
       | [i] => match as_z i with Some i => vmask (mask_at i) | None => VBad end
       | _ => VBad end;
     op_spec := fun_spec (fun a => match a with
       | [i] => match as_z i with Some i => vmask (spec_mask_at i) | None => VBad end
       | _ => VBad end) |};
  {| op_name := "bitmap.Bit";
     op_run := fun a => match a with
       | [i] => match as_z i with Some i => vbit (bit_at i) | None => VBad end
       | _ => VBad end;
     op_spec := fun_spec (fun a => match a with
       | [i] => match as_z i with Some i => vbit (spec_bit_at i) | None => VBad end
       | _ => VBad end) |};
  {| op_name := "bitmap.Fmt/c12";
     op_run := fun a => match a with
       | [sz; sg; sl; xs] => match as_z sz, as_z sg, as_bool sl, as_zs xs with
           | Some sz, Some _, Some sl, Some xs => vwords (Fmt sz sl xs)
           | _, _, _, _ => VBad end
       | _ => VBad end;
     op_spec := fun_spec (fun a => match a with
       | [sz; sg; sl; xs] => match as_z sz, as_bool sl, as_zs xs with
           | Some sz, Some sl, Some xs => vwords (spec_Fmt sz sl xs)
           | _, _, _ => VBad end
       | _ => VBad end) |}
].

(** * widening: the constructors composed with the readers of C01 and C13 *)
Definition vpz (p : Z * Z) : val := VL [VZ (fst p); VZ (snd p)].
Definition run_query (r : list Z) (tr : bool) (i e : Z) : val :=
  match Rank64 r (IndexRank64 r tr) i, Rank128 r (IndexRank128 r) i, NextOne r i e, PrevOne r i e with
  | Some a, Some b, Some c, Some d => VL [vpz a; vpz b; VZ c; VZ d]
  | _, _, _, _ => VPanic
  end.
Definition vquery (q : (Z * Z) * (Z * Z) * Z * Z) : val :=
  let '(a, b, c, d) := q in VL [vpz a; vpz b; VZ c; VZ d].
Definition range_ok (nbits i e : Z) : bool :=
  (0 <=? i) && (i <=? e) && (e <=? nbits) && (i <? nbits) && (1 <=? e).

Fixpoint bfoldM (b : builder) (ops : list bop) : option builder :=
  match ops with
  | [] => Some b
  | o :: t => bind (bstep b o) (fun b' => bfoldM b' t)
  end.

Definition ops_C12_query : list opdef := [
  {| op_name := "bitmap.Of/query";
     op_run := fun a => match a with
       | [ps; opt; tr; i; e] => match as_zs ps, as_opt opt, as_bool tr, as_z i, as_z e with
           | Some ps, Some opt, Some tr, Some i, Some e =>
               if query_dom ps opt i e then
                 match Of ps opt with Some r => run_query r tr i e | None => VPanic end
               else VBad
           | _, _, _, _, _ => VBad end
       | _ => VBad end;
     op_spec := fun_spec (fun a => match a with
       | [ps; opt; tr; i; e] => match as_zs ps, as_z i, as_z e with
           | Some ps, Some i, Some e => vquery (spec_query (usort ps) i e)
           | _, _, _ => VBad end
       | _ => VBad end) |};
  {| op_name := "bitmap.Builder/query";
     op_run := fun a => match a with
       | [n; ops; tr; i; e] => match as_z n, as_bops ops, as_bool tr, as_z i, as_z e with
           | Some n, Some ops, Some tr, Some i, Some e =>
               if (0 <=? n) && forallb bop_dom ops then
                 match bind (NewBuilder n) (fun b => bfoldM b ops) with
                 | Some b => if range_ok (64 * zlen (Words b)) i e then run_query (Words b) tr i e else VBad
                 | None => VPanic end
               else VBad
           | _, _, _, _, _ => VBad end
       | _ => VBad end;
     op_spec := fun_spec (fun a => match a with
       | [n; ops; tr; i; e] => match as_bops ops, as_z i, as_z e with
           | Some ops, Some i, Some e =>
               vquery (spec_query (usort (abits (fold_left astep ops {| abits := []; aoff := 0 |}))) i e)
           | _, _, _ => VBad end
       | _ => VBad end) |}
].

(** * widening: OfMany is Of on the shifted concatenation, whatever Of does with it *)
Definition owords_eqb (a b : option (list Z)) : bool :=
  match a, b with
  | Some x, Some y => zs_eqb x y
  | None, None => true
  | _, _ => false
  end.

Definition ops_C12_any : list opdef := [
  {| op_name := "bitmap.OfMany/asOf";
     op_run := fun a => match a with
       | [subs; sizes] => match as_zss subs, as_zs sizes with
           | Some subs, Some sizes =>
               if (List.length subs =? List.length sizes)%nat then
                 let x := OfMany subs sizes in
                 let y := Of (shifted subs sizes 0) (Some (total sizes)) in
                 if owords_eqb x y then VL [VZ 1] else VL [VZ 0; vwords x; vwords y]
               else VBad
           | _, _ => VBad end
       | _ => VBad end;
     op_spec := fun_spec (fun _ => VL [VZ 1]) |};
  {| op_name := "bitmap.Builder/asOfMany";
     op_run := fun a => match a with
       | [n; subs; sizes] => match as_z n, as_zss subs, as_zs sizes with
           | Some n, Some subs, Some sizes =>
               if (0 <=? n) && ofmany_dom2 subs sizes then
                 let ops := map (fun x => BExtend (fst x) (snd x)) (combine subs sizes) in
                 match bind (NewBuilder n) (fun b => bfoldM b ops), OfMany subs sizes with
                 | Some b, Some r =>
                     VL [vbool (zs_eqb r (Words b)); vbool (zs_eqb (strip0 r) (strip0 (Words b)));
                         vbool (Offset b =? total sizes); vzs r; vzs (Words b); VZ (Offset b)]
                 | _, _ => VPanic end
               else VBad
           | _, _, _ => VBad end
       | _ => VBad end;
     (* same set of bits and Offset = sum always; word for word where the shifted concatenation is ascending *)
     op_spec := fun a obs => match a, obs with
       | [n; subs; sizes], VL (VZ w :: VZ 1 :: VZ 1 :: _) => match as_zss subs, as_zs sizes with
           | Some subs, Some sizes => if ofmany_dom subs sizes then w =? 1 else true
           | _, _ => false end
       | _, _ => false end |}
].

(** * Builder over caller-supplied buffers, roll-backs, and sessions that mix Of with a Builder *)
(** [bitmap.Builder/mem] [ws0; spare; off0; [op...]]  b := &Builder{Words: buf[:len ws0], Offset: off0} over a buffer
      holding ws0 followed by [spare] junk words; op = [0; ps; size] (Extend) | [1; p; v] (Set) |
      [2; k] (b.Words = b.Words[:k]; b.Offset = 64k)      -> [[Words; Offset] at the start and after every op]
    [bitmap.Of/session] [n; [op...]]  e := Of(nil, n); b := &Builder{Words: e}; the ops on b; then Of([], n),
      OfMany([[],[]], [n, 0]), junk written into both results, Of([], n) again
                                                          -> [e; [[Words; Offset]...]; Of; OfMany; Of] *)
Definition as_mop (v : val) : option mop :=
  match v with
  | VL [VZ 2; VZ k] => Some (MRollback k)
  | _ => match as_bop v with Some o => Some (MStep o) | None => None end
  end.
Definition as_mops (v : val) : option (list mop) :=
  match v with VL l => opt_all (map as_mop l) | _ => None end.

Definition abs_empty : abs := {| abits := []; aoff := 0 |}.

Definition ops_C12_mem : list opdef := [
  {| op_name := "bitmap.Builder/mem";
     op_run := fun a => match a with
       | [ws0; spare; off0; ops] => match as_zs ws0, as_z spare, as_z off0, as_mops ops with
           | Some ws0, Some _, Some off0, Some ops =>
               if start_dom ws0 off0 && mhist_dom (abs_of ws0 off0) ops then
                 match mrun {| Words := ws0; Offset := off0 |} ops with
                 | Some bs => VL (map vbuilder bs)
                 | None => VPanic end
               else VBad
           | _, _, _, _ => VBad end
       | _ => VBad end;
     op_spec := fun a obs => match a with
       | [ws0; spare; off0; ops] => match as_zs ws0, as_z off0, as_mops ops, obs with
           | Some ws0, Some off0, Some ops, VL obs => builder_hist_ok (amrun (abs_of ws0 off0) ops) obs
           | _, _, _, _ => false end
       | _ => false end |};
  {| op_name := "bitmap.Of/session";
     op_run := fun a => match a with
       | [n; ops] => match as_z n, as_mops ops with
           | Some n, Some ops =>
               if (0 <=? n) && mhist_dom abs_empty ops then
                 match Of [] (Some n), OfMany [[]; []] [n; 0] with
                 | Some e, Some m =>
                     match mrun {| Words := e; Offset := 0 |} ops with
                     | Some bs => VL [vzs e; VL (map vbuilder bs); vzs e; vzs m; vzs e]
                     | None => VPanic end
                 | _, _ => VPanic end
               else VBad
           | _, _ => VBad end
       | _ => VBad end;
     op_spec := fun a obs => match a with
       | [n; ops] => match as_z n, as_mops ops, obs with
           | Some n, Some ops, VL [e1; VL sts; e2; m; e3] =>
               match as_zs e1, as_zs e2, as_zs m, as_zs e3 with
               | Some e1, Some e2, Some m, Some e3 =>
                   spec_Of_ok [] (Some n) e1 && spec_Of_ok [] (Some n) e2 && spec_Of_ok [] (Some n) m &&
                   spec_Of_ok [] (Some n) e3 && builder_hist_ok (amrun abs_empty ops) sts
               | _, _, _, _ => false end
           | _, _, _ => false end
       | _ => false end |}
  ;
  (* [bitmap.OfMany/shared] [flat; [[lo; hi]...]; sizes]  subs[i] = flat[lo:hi], all windows of ONE buffer (any order,
     overlapping allowed, capacity running to the end of the buffer); OfMany twice on the same arguments
     -> [first result; second result; 1 if flat is unchanged afterwards else 0] *)
  {| op_name := "bitmap.OfMany/shared";
     op_run := fun a => match a with
       | [flat; cuts; sizes] => match as_zs flat, as_zss cuts, as_zs sizes with
           | Some flat, Some cuts, Some sizes =>
               match opt_all (map (fun c => match c with
                                            | [lo; hi] => if (0 <=? lo) && (lo <=? hi) && (hi <=? zlen flat)
                                                          then Some (firstn (Z.to_nat (hi - lo)) (skipn (Z.to_nat lo) flat))
                                                          else None
                                            | _ => None end) cuts) with
               | Some subs =>
                   if ofmany_dom2 subs sizes then
                     match OfMany subs sizes with
                     | Some r => VL [vzs r; vzs r; VZ 1]
                     | None => VPanic end
                   else VBad
               | None => VBad end
           | _, _, _ => VBad end
       | _ => VBad end;
     op_spec := fun a obs => match a with
       | [flat; cuts; sizes] => match as_zs flat, as_zss cuts, as_zs sizes, obs with
           | Some flat, Some cuts, Some sizes, VL [r1; r2; VZ 1] =>
               let subs := map (fun c => match c with
                                         | [lo; hi] => firstn (Z.to_nat (hi - lo)) (skipn (Z.to_nat lo) flat)
                                         | _ => [] end) cuts in
               match as_zs r1, as_zs r2 with
               | Some r1, Some r2 => spec_OfMany_ok subs sizes r1 && spec_OfMany_ok subs sizes r2
               | _, _ => false end
           | _, _, _, _ => false end
       | _ => false end |}
].

Definition ops_C12 : list opdef := ops_C12_core ++ ops_C12_wide ++ ops_C12_query ++ ops_C12_any ++ ops_C12_mem.
