(** Protocol operation for C15 (see Lib/Val.v): one case = one whole history.

    op  bitmap.TailBitmap   args [o, [call, call, ...]]
        call ::= [0,idx] Set(idx) | [1] Compact() | [2,j] Get(j) | [3,j] Get1(j)
               | [4,from,to]  for idx := from; idx < to; idx++ { Set(idx) }
               | [5,from,to]  for idx := to-1; idx >= from; idx-- { Set(idx) }
        observation: one [Offset, Words, result] per call, taken after the call
        (result 0 for Set/Compact/bulk; for a bulk call only the state at its end).

    Domain (anything else is VBad = generator error): o a multiple of 64 in
    [0, 2^40]; indices in [-2^40, 2^40] and less than Offset + 2^22 (bounded
    growth); probes 0 <= j < Offset + 64*len(Words) of the state they are
    applied to; bulk ranges of at most 2^17 indices. *)
From Coq Require Import ZArith List Bool String.
From Low Require Import Lib.Bits Lib.BitSeq Lib.Val Model.TailBitmap Spec.TailBitmapSpec.
Import ListNotations.
Open Scope string_scope.
Open Scope Z_scope.

(** ---- the model side: protocol calls executed on the model ---- *)

Definition pstep (s : tb) (p : pop) : option (tb * Z) :=
  match p with
  | PSet idx => step s (OSet idx)
  | PCompact => step s OCompact
  | PGet j => step s (OGet j)
  | PGet1 j => step s (OGet1 j)
  | PSetUp f t =>
      match set_up (Z.to_nat (t - f)) s f with Some s' => Some (s', 0) | None => None end
  | PSetDown f t =>
      match set_down (Z.to_nat (t - f)) s (t - 1) with Some s' => Some (s', 0) | None => None end
  end.

Definition BIG : Z := 2^40.

Definition idx_in_domain (s : tb) (idx : Z) : bool :=
  (- BIG <=? idx) && (idx <=? BIG) && (idx <? Offset s + 2^22).

Definition pop_in_domain (s : tb) (p : pop) : bool :=
  match p with
  | PSet idx => idx_in_domain s idx
  | PCompact => true
  | PGet j | PGet1 j => (0 <=? j) && (j <? Offset s + 64 * zlen (Words s))
  | PSetUp f t | PSetDown f t =>
      (f <=? t) && (t - f <=? 2^17) && idx_in_domain s f && idx_in_domain s t
  end.

Definition offset_in_domain (o : Z) : bool :=
  (0 <=? o) && (o <=? BIG) && (o mod 64 =? 0).

Inductive outcome : Type :=
| OBad
| OPanic
| OOk (obs : list (Z * list Z * Z)).

Fixpoint run_proto (s : tb) (ps : list pop) : outcome :=
  match ps with
  | [] => OOk []
  | p :: t =>
      if negb (pop_in_domain s p) then OBad
      else match pstep s p with
           | None => OPanic
           | Some (s', r) =>
               match run_proto s' t with
               | OOk l => OOk ((Offset s', Words s', r) :: l)
               | x => x
               end
           end
  end.

Definition model_history (o : Z) (ps : list pop) : outcome :=
  if offset_in_domain o then run_proto (NewTailBitmap o) ps else OBad.

(** ---- val plumbing ---- *)

Definition dec_pop (v : val) : option pop :=
  match v with
  | VL [VZ 0; VZ idx] => Some (PSet idx)
  | VL [VZ 1] => Some PCompact
  | VL [VZ 2; VZ j] => Some (PGet j)
  | VL [VZ 3; VZ j] => Some (PGet1 j)
  | VL [VZ 4; VZ f; VZ t] => Some (PSetUp f t)
  | VL [VZ 5; VZ f; VZ t] => Some (PSetDown f t)
  | _ => None
  end.

Definition dec_args (a : list val) : option (Z * list pop) :=
  match a with
  | [VZ o; VL ops] =>
      match opt_all (map dec_pop ops) with Some ps => Some (o, ps) | None => None end
  | _ => None
  end.

Definition enc_ob (ob : Z * list Z * Z) : val :=
  let '(off, ws, r) := ob in VL [VZ off; vzs ws; VZ r].

Definition dec_ob (v : val) : option (Z * list Z * Z) :=
  match v with
  | VL [VZ off; ws; VZ r] =>
      match as_zs ws with Some ws => Some (off, ws, r) | None => None end
  | _ => None
  end.

Definition dec_obs (v : val) : option (list (Z * list Z * Z)) :=
  match v with VL l => opt_all (map dec_ob l) | _ => None end.

Definition ops_C15 : list opdef := [
  {| op_name := "bitmap.TailBitmap";
     op_run := fun a =>
       match dec_args a with
       | Some (o, ps) =>
           match model_history o ps with
           | OBad => VBad
           | OPanic => VPanic
           | OOk l => VL (map enc_ob l)
           end
       | None => VBad
       end;
     op_spec := fun a obs =>
       match dec_args a, dec_obs obs with
       | Some (o, ps), Some l => check_history o ps l
       | _, _ => false
       end |}
].
