(** Protocol operation for C15 (see Lib/Val.v): one case = one whole history.

    op  bitmap.TailBitmap   args [o, [call, call, ...]]
        call ::= [0,idx] Set(idx) | [1] Compact() | [2,j] Get(j) | [3,j] Get1(j)
               | [4,from,to]  for idx := from; idx < to; idx++ { Set(idx) }
               | [5,from,to]  for idx := to-1; idx >= from; idx-- { Set(idx) }
        observation: one [Offset, Words, result] per call, taken after the call
        (result 0 for Set/Compact/bulk; for a bulk call only the state at its end).

    Domain (anything else is VBad = generator error): o a multiple of 64 in
    [-2^40, 2^40] (negative offsets and indices included: Go's idx&63 and idx>>6 on negative
    int64 are Z.land and Z.shiftr); indices in [-2^40, 2^40] and less than Offset + 2^22 (bounded
    growth); probes -2^40 <= j < Offset + 64*len(Words) of the state they are
    applied to; bulk ranges of at most 2^17 indices. *)
From Coq Require Import ZArith List Bool String.
From Low Require Import Lib.Bits Lib.BitSeq Lib.Val Model.TailBitmap Spec.TailBitmapSpec.
From Low Require Model.BitmapOf.
From Low Require Import Model.TailBitmapI64.
Import ListNotations.
Open Scope string_scope.
Open Scope Z_scope.

(** ---- the model side: protocol calls executed on the model ---- *)

Definition pstep (s : tb) (p : pop) : option (tb * Z) :=
  match p with
  | PSet idx => step s (OSet idx)
  | PCompact => step s OCompact
  | PGet j => step s (OGet j)
  | PGet1 j => step s (OGet1 j)
  | PSetUp f t =>
      match set_up (Z.to_nat (t - f)) s f with Some s' => Some (s', 0) | None => None end
  | PSetDown f t =>
      match set_down (Z.to_nat (t - f)) s (t - 1) with Some s' => Some (s', 0) | None => None end
  end.

Definition BIG : Z := 2^40.

Definition idx_in_domain (s : tb) (idx : Z) : bool :=
  (- BIG <=? idx) && (idx <=? BIG) && (idx <? Offset s + 2^22).

Definition pop_in_domain (s : tb) (p : pop) : bool :=
  match p with
  | PSet idx => idx_in_domain s idx
  | PCompact => true
  | PGet j | PGet1 j => (- BIG <=? j) && (j <? Offset s + 64 * zlen (Words s))
  | PSetUp f t | PSetDown f t =>
      (f <=? t) && (t - f <=? 2^17) && idx_in_domain s f && idx_in_domain s t
  end.

Definition offset_in_domain (o : Z) : bool :=
  (- BIG <=? o) && (o <=? BIG) && (o mod 64 =? 0).

Inductive outcome : Type :=
| OBad
| OPanic
| OOk (obs : list (Z * list Z * Z)).

Fixpoint run_proto (s : tb) (ps : list pop) : outcome :=
  match ps with
  | [] => OOk []
  | p :: t =>
      if negb (pop_in_domain s p) then OBad
      else match pstep s p with
           | None => OPanic
           | Some (s', r) =>
               match run_proto s' t with
               | OOk l => OOk ((Offset s', Words s', r) :: l)
               | x => x
               end
           end
  end.

Definition model_history (o : Z) (ps : list pop) : outcome :=
  if offset_in_domain o then run_proto (NewTailBitmap o) ps else OBad.

(** a history that starts from the struct literal TailBitmap{Offset: off, Words: ws}
    (the unexported [reclaimed] is 0); at most 2^16 words *)
Definition model_literal (off : Z) (ws : list Z) (ps : list pop) : outcome :=
  if offset_in_domain off && words_okb ws && (zlen ws <=? 2^16)
  then run_proto (mkTB off ws 0) ps else OBad.

(** the state at the end of a protocol history *)
Inductive soutcome : Type :=
| SBad
| SPanic
| SOk (s : tb).

Fixpoint run_proto_state (s : tb) (ps : list pop) : soutcome :=
  match ps with
  | [] => SOk s
  | p :: t =>
      if negb (pop_in_domain s p) then SBad
      else match pstep s p with
           | None => SPanic
           | Some (s', _) => run_proto_state s' t
           end
  end.

(** one position read through TailBitmap.Get/Get1 and through bitmap.Get/Get1/SafeGet/SafeGet1 on the
    exported Words, i = int32(j - Offset) (the domain keeps j - Offset inside int32) *)
Definition words_entry (s : tb) (j : Z) : option (list Z) :=
  let i := j - Offset s in
  if j <? Offset s + 64 * zlen (Words s) then
    match Get s j, BitmapOf.Get (Words s) i, Get1 s j, BitmapOf.Get1 (Words s) i,
          BitmapOf.SafeGet (Words s) i, BitmapOf.SafeGet1 (Words s) i with
    | Some a1, Some a2, Some a3, Some a4, Some a5, Some a6 => Some [a1; a2; a3; a4; a5; a6]
    | _, _, _, _, _, _ => None
    end
  else
    match BitmapOf.SafeGet (Words s) i, BitmapOf.SafeGet1 (Words s) i with
    | Some a5, Some a6 => Some [a5; a6]
    | _, _ => None
    end.

Definition words_in_domain (s : tb) (j : Z) : bool := (Offset s <=? j) && (j - Offset s <? 2^31).

Definition model_words (o : Z) (ps : list pop) (js : list Z) : option (option (list (list Z))) :=
  if offset_in_domain o then
    match run_proto_state (NewTailBitmap o) ps with
    | SBad => None
    | SPanic => Some None
    | SOk s =>
        if forallb (words_in_domain s) js then Some (opt_all (map (words_entry s) js)) else None
    end
  else None.

(** ---- the same protocol on the int64 model, for offsets and indices near the ends of the int64
    range (op bitmap.TailBitmap/int64).  Domain: o any int64 multiple of 64; Set indices are int64,
    below Offset + 2^22 and below the last word of the range (j <= 2^63 - 65: completing that word
    wraps Offset, see Properties/C15.v: C15_int64_top_word_refuted); probes any int64 below the end;
    bulk ranges inside [-2^63, 2^63 - 64] (descending: from > -2^63). ---- *)
Definition pstep64 (s : tb) (p : pop) : option (tb * Z) :=
  match p with
  | PSet idx => step64 s (OSet idx)
  | PCompact => step64 s OCompact
  | PGet j => step64 s (OGet j)
  | PGet1 j => step64 s (OGet1 j)
  | PSetUp f t =>
      match set_up64 (Z.to_nat (t - f)) s f with Some s' => Some (s', 0) | None => None end
  | PSetDown f t =>
      match set_down64 (Z.to_nat (t - f)) s (t - 1) with Some s' => Some (s', 0) | None => None end
  end.

Definition i64b (j : Z) : bool := (- 2^63 <=? j) && (j <? 2^63).

Definition pop_in_domain64 (s : tb) (p : pop) : bool :=
  match p with
  | PSet idx => i64b idx && (idx <? Offset s + 2^22) && (idx <=? 2^63 - 65)
  | PCompact => true
  | PGet j | PGet1 j => i64b j && (j <? Offset s + 64 * zlen (Words s))
  | PSetUp f t =>
      (f <=? t) && (t - f <=? 2^17) && (- 2^63 <=? f) && (t <=? 2^63 - 64) && (t <? Offset s + 2^22)
  | PSetDown f t =>   (* idx-- below MinInt64 would wrap: the loop would not end *)
      (f <=? t) && (t - f <=? 2^17) && (- 2^63 <? f) && (t <=? 2^63 - 64) && (t <? Offset s + 2^22)
  end.

Fixpoint run_proto64 (s : tb) (ps : list pop) : outcome :=
  match ps with
  | [] => OOk []
  | p :: t =>
      if negb (pop_in_domain64 s p) then OBad
      else match pstep64 s p with
           | None => OPanic
           | Some (s', r) =>
               match run_proto64 s' t with
               | OOk l => OOk ((Offset s', Words s', r) :: l)
               | x => x
               end
           end
  end.

Definition model_history64 (o : Z) (ps : list pop) : outcome :=
  if i64b o && (o mod 64 =? 0) then run_proto64 (NewTailBitmap o) ps else OBad.

(** two objects, interleaved calls: [false] goes to A, [true] to B *)
Fixpoint run_pair (sa sb : tb) (cs : list (bool * pop)) : outcome :=
  match cs with
  | [] => OOk []
  | (w, p) :: t =>
      let s := if w then sb else sa in
      if negb (pop_in_domain s p) then OBad
      else match pstep s p with
           | None => OPanic
           | Some (s', r) =>
               match (if w then run_pair sa s' t else run_pair s' sb t) with
               | OOk l => OOk ((Offset s', Words s', r) :: l)
               | x => x
               end
           end
  end.

Definition model_pair (oa ob : Z) (cs : list (bool * pop)) : outcome :=
  if offset_in_domain oa && offset_in_domain ob
  then run_pair (NewTailBitmap oa) (NewTailBitmap ob) cs else OBad.

(** ---- val plumbing ---- *)

Definition dec_pop (v : val) : option pop :=
  match v with
  | VL [VZ 0; VZ idx] => Some (PSet idx)
  | VL [VZ 1] => Some PCompact
  | VL [VZ 2; VZ j] => Some (PGet j)
  | VL [VZ 3; VZ j] => Some (PGet1 j)
  | VL [VZ 4; VZ f; VZ t] => Some (PSetUp f t)
  | VL [VZ 5; VZ f; VZ t] => Some (PSetDown f t)
  | _ => None
  end.

Definition dec_args (a : list val) : option (Z * list pop) :=
  match a with
  | [VZ o; VL ops] =>
      match opt_all (map dec_pop ops) with Some ps => Some (o, ps) | None => None end
  | _ => None
  end.

Definition dec_args_lit (a : list val) : option (Z * list Z * list pop) :=
  match a with
  | [VZ o; ws; VL ops] =>
      match as_zs ws, opt_all (map dec_pop ops) with
      | Some ws, Some ps => Some (o, ws, ps)
      | _, _ => None
      end
  | _ => None
  end.

Definition dec_pcall (v : val) : option (bool * pop) :=
  match v with
  | VL [VZ w; c] =>
      match dec_pop c with
      | Some p => if w =? 0 then Some (false, p) else if w =? 1 then Some (true, p) else None
      | None => None
      end
  | _ => None
  end.

Definition dec_args_pair (a : list val) : option (Z * Z * list (bool * pop)) :=
  match a with
  | [VZ oa; VZ ob; VL cs] =>
      match opt_all (map dec_pcall cs) with Some cs => Some (oa, ob, cs) | None => None end
  | _ => None
  end.

Definition enc_ob (ob : Z * list Z * Z) : val :=
  let '(off, ws, r) := ob in VL [VZ off; vzs ws; VZ r].

Definition dec_ob (v : val) : option (Z * list Z * Z) :=
  match v with
  | VL [VZ off; ws; VZ r] =>
      match as_zs ws with Some ws => Some (off, ws, r) | None => None end
  | _ => None
  end.

Definition dec_obs (v : val) : option (list (Z * list Z * Z)) :=
  match v with VL l => opt_all (map dec_ob l) | _ => None end.

Definition ops_C15 : list opdef := [
  {| op_name := "bitmap.TailBitmap";
     op_run := fun a =>
       match dec_args a with
       | Some (o, ps) =>
           match model_history o ps with
           | OBad => VBad
           | OPanic => VPanic
           | OOk l => VL (map enc_ob l)
           end
       | None => VBad
       end;
     op_spec := fun a obs =>
       match dec_args a, dec_obs obs with
       | Some (o, ps), Some l => check_history o ps l
       | _, _ => false
       end |};
  (* op  bitmap.TailBitmap/literal   args [off, words, [call, ...]] : the same history protocol on
     &TailBitmap{Offset: off, Words: words} *)
  {| op_name := "bitmap.TailBitmap/literal";
     op_run := fun a =>
       match dec_args_lit a with
       | Some (o, ws, ps) =>
           match model_literal o ws ps with
           | OBad => VBad
           | OPanic => VPanic
           | OOk l => VL (map enc_ob l)
           end
       | None => VBad
       end;
     op_spec := fun a obs =>
       match dec_args_lit a, dec_obs obs with
       | Some (o, ws, ps), Some l => check_literal o ws ps l
       | _, _ => false
       end |};
  (* op  bitmap.TailBitmap/pair   args [oA, oB, [[which, call], ...]] : two TailBitmaps alive in one
     process, calls interleaved; one [Offset, Words, result] of the called object per call *)
  {| op_name := "bitmap.TailBitmap/pair";
     op_run := fun a =>
       match dec_args_pair a with
       | Some (oa, ob, cs) =>
           match model_pair oa ob cs with
           | OBad => VBad
           | OPanic => VPanic
           | OOk l => VL (map enc_ob l)
           end
       | None => VBad
       end;
     op_spec := fun a obs =>
       match dec_args_pair a, dec_obs obs with
       | Some (oa, ob, cs), Some l => check_pair oa ob cs l
       | _, _ => false
       end |};
  (* op  bitmap.TailBitmap/int64   args [o, [call, ...]] : the history protocol near the ends of the
     int64 range, run on the int64 model, judged by the same checker *)
  {| op_name := "bitmap.TailBitmap/int64";
     op_run := fun a =>
       match dec_args a with
       | Some (o, ps) =>
           match model_history64 o ps with
           | OBad => VBad
           | OPanic => VPanic
           | OOk l => VL (map enc_ob l)
           end
       | None => VBad
       end;
     op_spec := fun a obs =>
       match dec_args a, dec_obs obs with
       | Some (o, ps), Some l => check_history o ps l
       | _, _ => false
       end |};
  (* op  bitmap.TailBitmap/words   args [o, [call, ...], [j, ...]] : the history, then every j read
     through TailBitmap.Get/Get1 and bitmap.Get/Get1/SafeGet/SafeGet1 on the exported Words *)
  {| op_name := "bitmap.TailBitmap/words";
     op_run := fun a =>
       match a with
       | [VZ o; VL ops; js] =>
           match opt_all (map dec_pop ops), as_zs js with
           | Some ps, Some js =>
               match model_words o ps js with
               | None => VBad
               | Some None => VPanic
               | Some (Some es) => VL (map vzs es)
               end
           | _, _ => VBad
           end
       | _ => VBad
       end;
     op_spec := fun a obs =>
       match a, obs with
       | [VZ o; VL ops; js], VL es =>
           match opt_all (map dec_pop ops), as_zs js, opt_all (map as_zs es) with
           | Some ps, Some js, Some es => check_words o (hist_after [] ps) js es
           | _, _, _ => false
           end
       | _, _ => false
       end |}
].
