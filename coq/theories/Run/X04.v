(** Protocol operations for the extra check X04 (mathext/util), see Lib/Val.v.
    For every kind K in I I8 I16 I32 I64 U U8 U16 U32 U64:
      [util.Min<K>] [a; b], [util.Max<K>] [a; b], [util.Clap<K>] [n; min; max]   one call;
      [util.MinMax<K>/grid] [as; bs]      [mins; maxs], both |as| x |bs| tables (exhaustive sweeps);
      [util.Clap<K>/grid]   [ns; min; max]  the results for every n of ns.
    Arguments outside the Go type of the kind are a protocol error ([VBad]). *)
From Coq Require Import ZArith List Bool String.
From Low Require Import Lib.Val Model.MathUtil Spec.MathUtilSpec.
Import ListNotations.
Open Scope string_scope.
Open Scope Z_scope.

Definition kind_name (k : ikind) : string :=
  match k with KI => "I" | KI8 => "I8" | KI16 => "I16" | KI32 => "I32" | KI64 => "I64"
             | KU => "U" | KU8 => "U8" | KU16 => "U16" | KU32 => "U32" | KU64 => "U64" end.

Definition all_in (k : ikind) (l : list Z) : bool := forallb (in_kindb k) l.

Definition run2 (k : ikind) (f : Z -> Z -> Z) (checked : bool) : list val -> val := fun a =>
  match a with
  | [x; y] => match as_z x, as_z y with
      | Some x, Some y => if negb checked || all_in k [x; y] then VZ (f x y) else VBad
      | _, _ => VBad end
  | _ => VBad end.

Definition run3 (k : ikind) (f : Z -> Z -> Z -> Z) (checked : bool) : list val -> val := fun a =>
  match a with
  | [x; y; z] => match as_z x, as_z y, as_z z with
      | Some x, Some y, Some z => if negb checked || all_in k [x; y; z] then VZ (f x y z) else VBad
      | _, _, _ => VBad end
  | _ => VBad end.

Definition run_grid2 (k : ikind) (fmin fmax : Z -> Z -> Z) (checked : bool) : list val -> val := fun a =>
  match a with
  | [xs; ys] => match as_zs xs, as_zs ys with
      | Some xs, Some ys =>
          if negb checked || (all_in k xs && all_in k ys)
          then VL [vzss (map (fun x => map (fmin x) ys) xs); vzss (map (fun x => map (fmax x) ys) xs)]
          else VBad
      | _, _ => VBad end
  | _ => VBad end.

Definition run_grid3 (k : ikind) (f : Z -> Z -> Z -> Z) (checked : bool) : list val -> val := fun a =>
  match a with
  | [ns; lo; hi] => match as_zs ns, as_z lo, as_z hi with
      | Some ns, Some lo, Some hi =>
          if negb checked || (all_in k ns && all_in k [lo; hi])
          then vzs (map (fun n => f n lo hi) ns) else VBad
      | _, _, _ => VBad end
  | _ => VBad end.

Definition ops_of_kind (k : ikind) : list opdef := [
  {| op_name := "util.Min" ++ kind_name k;
     op_run := run2 k (MinK k) true; op_spec := fun_spec (run2 k spec_min false) |};
  {| op_name := "util.Max" ++ kind_name k;
     op_run := run2 k (MaxK k) true; op_spec := fun_spec (run2 k spec_max false) |};
  {| op_name := "util.Clap" ++ kind_name k;
     op_run := run3 k (ClapK k) true; op_spec := fun_spec (run3 k spec_clamp false) |};
  {| op_name := "util.MinMax" ++ kind_name k ++ "/grid";
     op_run := run_grid2 k (MinK k) (MaxK k) true; op_spec := fun_spec (run_grid2 k spec_min spec_max false) |};
  {| op_name := "util.Clap" ++ kind_name k ++ "/grid";
     op_run := run_grid3 k (ClapK k) true; op_spec := fun_spec (run_grid3 k spec_clamp false) |}
]%list.

Definition ops_X04 : list opdef := flat_map ops_of_kind all_kinds.
