(** Protocol operations for C02 (see Lib/Val.v). *)
From Coq Require Import ZArith List Bool String.
From Low Require Import Lib.Bits Lib.BitSeq Lib.Val Model.Rank Model.Select Spec.RankSpec Spec.SelectSpec.
Import ListNotations.
Open Scope string_scope.
Open Scope Z_scope.

(** the domain of a select query: 0 <= i < number of 1-bits *)
Definition c02_in_range (ws : list Z) (i : Z) : bool :=
  (0 <=? i) && (i <? count_true (flat ws)).

Definition c02_pair (p : Z * Z) : val := VL [VZ (fst p); VZ (snd p)].

Definition ops_C02 : list opdef := [
  {| op_name := "bitmap.IndexSelect32";
     op_run := fun a => match a with
       | [ws] => match as_zs ws with
                 | Some ws => match IndexSelect32 ws with Some r => vzs r | None => VPanic end
                 | _ => VBad end
       | _ => VBad end;
     op_spec := fun_spec (fun a => match a with
       | [ws] => match as_zs ws with Some ws => vzs (spec_IndexSelect32 ws) | _ => VBad end
       | _ => VBad end) |};
  {| op_name := "bitmap.IndexSelect32R64";
     op_run := fun a => match a with
       | [ws] => match as_zs ws with
                 | Some ws => match IndexSelect32R64 ws with
                              | Some (s, r) => VL [vzs s; vzs r] | None => VPanic end
                 | _ => VBad end
       | _ => VBad end;
     op_spec := fun_spec (fun a => match a with
       | [ws] => match as_zs ws with
                 | Some ws => let (s, r) := spec_IndexSelect32R64 ws in VL [vzs s; vzs r]
                 | _ => VBad end
       | _ => VBad end) |};
  (* Select32 with the index built by IndexSelect32(words) *)
  {| op_name := "bitmap.Select32";
     op_run := fun a => match a with
       | [ws; i] => match as_zs ws, as_z i with
           | Some ws, Some i =>
               if c02_in_range ws i then
                 match IndexSelect32 ws with
                 | Some sidx => match Select32 ws sidx i with Some p => c02_pair p | None => VPanic end
                 | None => VPanic
                 end
               else VBad
           | _, _ => VBad end
       | _ => VBad end;
     op_spec := fun_spec (fun a => match a with
       | [ws; i] => match as_zs ws, as_z i with
           | Some ws, Some i => c02_pair (spec_Select ws i) | _, _ => VBad end
       | _ => VBad end) |};
  (* Select32R64 with the two indexes built by IndexSelect32R64(words) *)
  {| op_name := "bitmap.Select32R64";
     op_run := fun a => match a with
       | [ws; i] => match as_zs ws, as_z i with
           | Some ws, Some i =>
               if c02_in_range ws i then
                 match IndexSelect32R64 ws with
                 | Some (sidx, ridx) =>
                     match Select32R64 ws sidx ridx i with Some p => c02_pair p | None => VPanic end
                 | None => VPanic
                 end
               else VBad
           | _, _ => VBad end
       | _ => VBad end;
     op_spec := fun_spec (fun a => match a with
       | [ws; i] => match as_zs ws, as_z i with
           | Some ws, Some i => c02_pair (spec_Select ws i) | _, _ => VBad end
       | _ => VBad end) |};
  (* "held" variants: the Go side builds the indexes of a decoy bitmap between building and querying,
     and queries twice; the result must be the same (the extra last argument, the decoy, is ignored here) *)
  {| op_name := "bitmap.Select32/held";
     op_run := fun a => match a with
       | [ws; i; _] => match as_zs ws, as_z i with
           | Some ws, Some i =>
               if c02_in_range ws i then
                 match IndexSelect32 ws with
                 | Some sidx => match Select32 ws sidx i with Some p => c02_pair p | None => VPanic end
                 | None => VPanic
                 end
               else VBad
           | _, _ => VBad end
       | _ => VBad end;
     op_spec := fun_spec (fun a => match a with
       | [ws; i; _] => match as_zs ws, as_z i with
           | Some ws, Some i => c02_pair (spec_Select ws i) | _, _ => VBad end
       | _ => VBad end) |};
  {| op_name := "bitmap.Select32R64/held";
     op_run := fun a => match a with
       | [ws; i; _] => match as_zs ws, as_z i with
           | Some ws, Some i =>
               if c02_in_range ws i then
                 match IndexSelect32R64 ws with
                 | Some (sidx, ridx) =>
                     match Select32R64 ws sidx ridx i with Some p => c02_pair p | None => VPanic end
                 | None => VPanic
                 end
               else VBad
           | _, _ => VBad end
       | _ => VBad end;
     op_spec := fun_spec (fun a => match a with
       | [ws; i; _] => match as_zs ws, as_z i with
           | Some ws, Some i => c02_pair (spec_Select ws i) | _, _ => VBad end
       | _ => VBad end) |}
].
