(** Protocol operations for C02 (see Lib/Val.v). *)
From Coq Require Import ZArith List Bool String.
From Low Require Import Lib.Bits Lib.BitSeq Lib.Val Model.Rank Model.Select Model.BitmapNext Model.BitmapOf Spec.RankSpec Spec.SelectSpec Spec.SelectRankSpec Spec.SelectLinSpec.
Import ListNotations.
Open Scope string_scope.
Open Scope Z_scope.

(** the domain of a select query: 0 <= i < number of 1-bits *)
Definition c02_in_range (ws : list Z) (i : Z) : bool :=
  (0 <=? i) && (i <? count_true (flat ws)).

Definition c02_pair (p : Z * Z) : val := VL [VZ (fst p); VZ (snd p)].

Definition ops_C02_base : list opdef := [
  {| op_name := "bitmap.IndexSelect32";
     op_run := fun a => match a with
       | [ws] => match as_zs ws with
                 | Some ws => match IndexSelect32 ws with Some r => vzs r | None => VPanic end
                 | _ => VBad end
       | _ => VBad end;
     op_spec := fun_spec (fun a => match a with
       | [ws] => match as_zs ws with Some ws => vzs (spec_IndexSelect32 ws) | _ => VBad end
       | _ => VBad end) |};
  {| op_name := "bitmap.IndexSelect32R64";
     op_run := fun a => match a with
       | [ws] => match as_zs ws with
                 | Some ws => match IndexSelect32R64 ws with
                              | Some (s, r) => VL [vzs s; vzs r] | None => VPanic end
                 | _ => VBad end
       | _ => VBad end;
     op_spec := fun_spec (fun a => match a with
       | [ws] => match as_zs ws with
                 | Some ws => let (s, r) := spec_IndexSelect32R64 ws in VL [vzs s; vzs r]
                 | _ => VBad end
       | _ => VBad end) |};
  (* Select32 with the index built by IndexSelect32(words) *)
  {| op_name := "bitmap.Select32";
     op_run := fun a => match a with
       | [ws; i] => match as_zs ws, as_z i with
           | Some ws, Some i =>
               if c02_in_range ws i then
                 match IndexSelect32 ws with
                 | Some sidx => match Select32 ws sidx i with Some p => c02_pair p | None => VPanic end
                 | None => VPanic
                 end
               else VBad
           | _, _ => VBad end
       | _ => VBad end;
     op_spec := fun_spec (fun a => match a with
       | [ws; i] => match as_zs ws, as_z i with
           | Some ws, Some i => c02_pair (spec_Select ws i) | _, _ => VBad end
       | _ => VBad end) |};
  (* Select32R64 with the two indexes built by IndexSelect32R64(words) *)
  {| op_name := "bitmap.Select32R64";
     op_run := fun a => match a with
       | [ws; i] => match as_zs ws, as_z i with
           | Some ws, Some i =>
               if c02_in_range ws i then
                 match IndexSelect32R64 ws with
                 | Some (sidx, ridx) =>
                     match Select32R64 ws sidx ridx i with Some p => c02_pair p | None => VPanic end
                 | None => VPanic
                 end
               else VBad
           | _, _ => VBad end
       | _ => VBad end;
     op_spec := fun_spec (fun a => match a with
       | [ws; i] => match as_zs ws, as_z i with
           | Some ws, Some i => c02_pair (spec_Select ws i) | _, _ => VBad end
       | _ => VBad end) |};
  (* "held" variants: the Go side builds the indexes of a decoy bitmap between building and querying,
     and queries twice; the result must be the same (the extra last argument, the decoy, is ignored here) *)
  {| op_name := "bitmap.Select32/held";
     op_run := fun a => match a with
       | [ws; i; _] => match as_zs ws, as_z i with
           | Some ws, Some i =>
               if c02_in_range ws i then
                 match IndexSelect32 ws with
                 | Some sidx => match Select32 ws sidx i with Some p => c02_pair p | None => VPanic end
                 | None => VPanic
                 end
               else VBad
           | _, _ => VBad end
       | _ => VBad end;
     op_spec := fun_spec (fun a => match a with
       | [ws; i; _] => match as_zs ws, as_z i with
           | Some ws, Some i => c02_pair (spec_Select ws i) | _, _ => VBad end
       | _ => VBad end) |};
  {| op_name := "bitmap.Select32R64/held";
     op_run := fun a => match a with
       | [ws; i; _] => match as_zs ws, as_z i with
           | Some ws, Some i =>
               if c02_in_range ws i then
                 match IndexSelect32R64 ws with
                 | Some (sidx, ridx) =>
                     match Select32R64 ws sidx ridx i with Some p => c02_pair p | None => VPanic end
                 | None => VPanic
                 end
               else VBad
           | _, _ => VBad end
       | _ => VBad end;
     op_spec := fun_spec (fun a => match a with
       | [ws; i; _] => match as_zs ws, as_z i with
           | Some ws, Some i => c02_pair (spec_Select ws i) | _, _ => VBad end
       | _ => VBad end) |}
].

(** * widened: the library's select composed with the library's rank (C01's functions), both ways *)

(** domain of "select (rank p)": p inside the bitmap and some 1-bit at or after p *)
Definition c02_from_in_range (ws : list Z) (p : Z) : bool :=
  (0 <=? p) && (p <? 64 * zlen ws) && has_one_from ws p.

Definition c02_rank_of_select (sel : option (Z * Z)) (rank : Z -> option (Z * Z)) : val :=
  match sel with
  | Some (a, _) => match rank a with Some p => c02_pair p | None => VPanic end
  | None => VPanic
  end.

Definition c02_select_of_rank (rank : option (Z * Z)) (sel : Z -> option (Z * Z)) : val :=
  match rank with
  | Some (r, _) => match sel r with Some p => c02_pair p | None => VPanic end
  | None => VPanic
  end.

Definition ops_C02_widen : list opdef := [
  (* Rank64(words, IndexRank64(words), a) where (a, _) = Select32(words, IndexSelect32(words), i): must be (i, 1) *)
  {| op_name := "bitmap.Rank64/Select32";
     op_run := fun a => match a with
       | [ws; i] => match as_zs ws, as_z i with
           | Some ws, Some i =>
               if c02_in_range ws i then
                 match IndexSelect32 ws with
                 | Some sidx => c02_rank_of_select (Select32 ws sidx i) (Rank64 ws (IndexRank64 ws false))
                 | None => VPanic
                 end
               else VBad
           | _, _ => VBad end
       | _ => VBad end;
     op_spec := fun_spec (fun a => match a with
       | [_; i] => match as_z i with Some i => VL [VZ i; VZ 1] | None => VBad end
       | _ => VBad end) |};
  (* Rank128(words, IndexRank128(words), a) where (a, _) = Select32R64(...): must be (i, 1) *)
  {| op_name := "bitmap.Rank128/Select32R64";
     op_run := fun a => match a with
       | [ws; i] => match as_zs ws, as_z i with
           | Some ws, Some i =>
               if c02_in_range ws i then
                 match IndexSelect32R64 ws with
                 | Some (sidx, ridx) =>
                     c02_rank_of_select (Select32R64 ws sidx ridx i) (Rank128 ws (IndexRank128 ws))
                 | None => VPanic
                 end
               else VBad
           | _, _ => VBad end
       | _ => VBad end;
     op_spec := fun_spec (fun a => match a with
       | [_; i] => match as_z i with Some i => VL [VZ i; VZ 1] | None => VBad end
       | _ => VBad end) |};
  (* Select32(words, idx, r) where (r, _) = Rank64(words, IndexRank64(words, true), p):
     must be (first 1-bit at or after p, the 1-bit after it or 64*len) *)
  {| op_name := "bitmap.Select32/Rank64";
     op_run := fun a => match a with
       | [ws; p] => match as_zs ws, as_z p with
           | Some ws, Some p =>
               if c02_from_in_range ws p then
                 match IndexSelect32 ws with
                 | Some sidx => c02_select_of_rank (Rank64 ws (IndexRank64 ws true) p) (Select32 ws sidx)
                 | None => VPanic
                 end
               else VBad
           | _, _ => VBad end
       | _ => VBad end;
     op_spec := fun_spec (fun a => match a with
       | [ws; p] => match as_zs ws, as_z p with
           | Some ws, Some p => c02_pair (spec_SelectFrom ws p) | _, _ => VBad end
       | _ => VBad end) |};
  {| op_name := "bitmap.Select32R64/Rank128";
     op_run := fun a => match a with
       | [ws; p] => match as_zs ws, as_z p with
           | Some ws, Some p =>
               if c02_from_in_range ws p then
                 match IndexSelect32R64 ws with
                 | Some (sidx, ridx) =>
                     c02_select_of_rank (Rank128 ws (IndexRank128 ws) p) (Select32R64 ws sidx ridx)
                 | None => VPanic
                 end
               else VBad
           | _, _ => VBad end
       | _ => VBad end;
     op_spec := fun_spec (fun a => match a with
       | [ws; p] => match as_zs ws, as_z p with
           | Some ws, Some p => c02_pair (spec_SelectFrom ws p) | _, _ => VBad end
       | _ => VBad end) |}
].

(** * widened: select against NextOne (C13's function) *)

(** (a, b) = select result; then NextOne(words, a+1, 64*len) unless a is the very last bit *)
Definition c02_sel_next (ws : list Z) (sel : option (Z * Z)) : val :=
  match sel with
  | Some (a, b) =>
      if a + 1 <? 64 * zlen ws then
        match NextOne ws (a + 1) (64 * zlen ws) with
        | Some nx => VL [VZ a; VZ b; VZ nx]
        | None => VPanic
        end
      else VL [VZ a; VZ b; VZ (-1)]
  | None => VPanic
  end.

Definition c02_sel_next_spec (ws : list Z) (i : Z) : val :=
  let (a, b) := spec_Select ws i in
  VL [VZ a; VZ b; VZ (if b <? 64 * zlen ws then b else -1)].

Definition ops_C02_next : list opdef := [
  {| op_name := "bitmap.Select32/NextOne";
     op_run := fun a => match a with
       | [ws; i] => match as_zs ws, as_z i with
           | Some ws, Some i =>
               if c02_in_range ws i then
                 match IndexSelect32 ws with
                 | Some sidx => c02_sel_next ws (Select32 ws sidx i)
                 | None => VPanic
                 end
               else VBad
           | _, _ => VBad end
       | _ => VBad end;
     op_spec := fun_spec (fun a => match a with
       | [ws; i] => match as_zs ws, as_z i with
           | Some ws, Some i => c02_sel_next_spec ws i | _, _ => VBad end
       | _ => VBad end) |};
  {| op_name := "bitmap.Select32R64/NextOne";
     op_run := fun a => match a with
       | [ws; i] => match as_zs ws, as_z i with
           | Some ws, Some i =>
               if c02_in_range ws i then
                 match IndexSelect32R64 ws with
                 | Some (sidx, ridx) => c02_sel_next ws (Select32R64 ws sidx ridx i)
                 | None => VPanic
                 end
               else VBad
           | _, _ => VBad end
       | _ => VBad end;
     op_spec := fun_spec (fun a => match a with
       | [ws; i] => match as_zs ws, as_z i with
           | Some ws, Some i => c02_sel_next_spec ws i | _, _ => VBad end
       | _ => VBad end) |};
  (* [NextOne(words, p, 64*len); a] where r = Rank64(words, IndexRank64(words,true), p) and, when r is below
     the grand total rindex[len], (a, _) = Select32(words, IndexSelect32(words), r), else a = -1: both must be
     the first 1-bit at or after p, or -1 when there is none *)
  {| op_name := "bitmap.NextOne/Rank64";
     op_run := fun a => match a with
       | [ws; p] => match as_zs ws, as_z p with
           | Some ws, Some p =>
               if (0 <=? p) && (p <? 64 * zlen ws) then
                 let ridx := IndexRank64 ws true in
                 match NextOne ws p (64 * zlen ws), Rank64 ws ridx p, nthZ ridx (zlen ws) with
                 | Some nx, Some (r, _), Some total =>
                     if r <? total then
                       match IndexSelect32 ws with
                       | Some sidx => match Select32 ws sidx r with
                                      | Some (x, _) => VL [VZ nx; VZ x]
                                      | None => VPanic end
                       | None => VPanic
                       end
                     else VL [VZ nx; VZ (-1)]
                 | _, _, _ => VPanic
                 end
               else VBad
           | _, _ => VBad end
       | _ => VBad end;
     op_spec := fun_spec (fun a => match a with
       | [ws; p] => match as_zs ws, as_z p with
           | Some ws, Some p =>
               let v := if has_one_from ws p then fst (spec_SelectFrom ws p) else -1 in
               VL [VZ v; VZ v]
           | _, _ => VBad end
       | _ => VBad end) |}
].

(** * widened: select against ToArray (toarray.go; model in Model/BitmapOf.v): one case = the whole
      bitmap, [ToArray(words); Select(i) for every i < len(ToArray(words))] *)
Fixpoint c02_all_selects (sel : Z -> option (Z * Z)) (is : list nat) : option (list val) :=
  match is with
  | [] => Some []
  | i :: t => match sel (Z.of_nat i), c02_all_selects sel t with
              | Some p, Some r => Some (c02_pair p :: r)
              | _, _ => None
              end
  end.

Definition c02_sweep_spec (ws : list Z) : val :=
  let os := all_ones ws in
  VL [vzs os; VL (map (fun i => c02_pair (spec_Select ws (Z.of_nat i))) (seq 0 (List.length os)))].

Definition ops_C02_toarray : list opdef := [
  {| op_name := "bitmap.Select32/ToArray";
     op_run := fun a => match a with
       | [ws] => match as_zs ws with
           | Some ws =>
               match ToArray ws, IndexSelect32 ws with
               | Some ta, Some sidx =>
                   match c02_all_selects (Select32 ws sidx) (seq 0 (List.length ta)) with
                   | Some r => VL [vzs ta; VL r]
                   | None => VPanic
                   end
               | _, _ => VPanic
               end
           | None => VBad end
       | _ => VBad end;
     op_spec := fun_spec (fun a => match a with
       | [ws] => match as_zs ws with Some ws => c02_sweep_spec ws | None => VBad end
       | _ => VBad end) |};
  {| op_name := "bitmap.Select32R64/ToArray";
     op_run := fun a => match a with
       | [ws] => match as_zs ws with
           | Some ws =>
               match ToArray ws, IndexSelect32R64 ws with
               | Some ta, Some (sidx, ridx) =>
                   match c02_all_selects (Select32R64 ws sidx ridx) (seq 0 (List.length ta)) with
                   | Some r => VL [vzs ta; VL r]
                   | None => VPanic
                   end
               | _, _ => VPanic
               end
           | None => VBad end
       | _ => VBad end;
     op_spec := fun_spec (fun a => match a with
       | [ws] => match as_zs ws with Some ws => c02_sweep_spec ws | None => VBad end
       | _ => VBad end) |}
].

(** * widened: select against PrevOne (C13's function): [a; PrevOne(words, 0, a)] with (a, _) = select(i);
      PrevOne is not called when a = 0 (its range would be empty) *)
Definition c02_sel_prev (ws : list Z) (sel : option (Z * Z)) : val :=
  match sel with
  | Some (a, _) =>
      if 1 <=? a then
        match PrevOne ws 0 a with
        | Some pv => VL [VZ a; VZ pv]
        | None => VPanic
        end
      else VL [VZ a; VZ (-1)]
  | None => VPanic
  end.

Definition c02_sel_prev_spec (ws : list Z) (i : Z) : val :=
  VL [VZ (fst (spec_Select ws i)); VZ (if 0 <? i then fst (spec_Select ws (i - 1)) else -1)].

Definition ops_C02_prev : list opdef := [
  {| op_name := "bitmap.PrevOne/Select32";
     op_run := fun a => match a with
       | [ws; i] => match as_zs ws, as_z i with
           | Some ws, Some i =>
               if c02_in_range ws i then
                 match IndexSelect32 ws with
                 | Some sidx => c02_sel_prev ws (Select32 ws sidx i)
                 | None => VPanic
                 end
               else VBad
           | _, _ => VBad end
       | _ => VBad end;
     op_spec := fun_spec (fun a => match a with
       | [ws; i] => match as_zs ws, as_z i with
           | Some ws, Some i => c02_sel_prev_spec ws i | _, _ => VBad end
       | _ => VBad end) |};
  {| op_name := "bitmap.PrevOne/Select32R64";
     op_run := fun a => match a with
       | [ws; i] => match as_zs ws, as_z i with
           | Some ws, Some i =>
               if c02_in_range ws i then
                 match IndexSelect32R64 ws with
                 | Some (sidx, ridx) => c02_sel_prev ws (Select32R64 ws sidx ridx i)
                 | None => VPanic
                 end
               else VBad
           | _, _ => VBad end
       | _ => VBad end;
     op_spec := fun_spec (fun a => match a with
       | [ws; i] => match as_zs ws, as_z i with
           | Some ws, Some i => c02_sel_prev_spec ws i | _, _ => VBad end
       | _ => VBad end) |}
].

(** * "held" index slices: the Go side builds the index of [ws], then the indexes of a decoy bitmap, and only then
      reads the first index out; the result must be the index of [ws] (the decoy, last argument, is ignored here) *)
Definition ops_C02_heldidx : list opdef := [
  {| op_name := "bitmap.IndexSelect32/held";
     op_run := fun a => match a with
       | [ws; _] => match as_zs ws with
                 | Some ws => match IndexSelect32 ws with Some r => vzs r | None => VPanic end
                 | _ => VBad end
       | _ => VBad end;
     op_spec := fun_spec (fun a => match a with
       | [ws; _] => match as_zs ws with Some ws => vzs (spec_IndexSelect32 ws) | _ => VBad end
       | _ => VBad end) |};
  {| op_name := "bitmap.IndexSelect32R64/held";
     op_run := fun a => match a with
       | [ws; _] => match as_zs ws with
                 | Some ws => match IndexSelect32R64 ws with
                              | Some (s, r) => VL [vzs s; vzs r] | None => VPanic end
                 | _ => VBad end
       | _ => VBad end;
     op_spec := fun_spec (fun a => match a with
       | [ws; _] => match as_zs ws with
                 | Some ws => let (s, r) := spec_IndexSelect32R64 ws in VL [vzs s; vzs r]
                 | _ => VBad end
       | _ => VBad end) |}
].

(** * very large bitmaps, run-length encoded [[count, word], ...] (expanded the same way on both sides).
      The faithful model is quadratic in the number of words (a list read per bit), so these operations evaluate the
      LINEAR-time [lin_Select] / [lin_IndexSelect32] of Spec/SelectLinSpec.v instead; Properties/C02.v
      ([C02_rle_run_is_model...]) proves that this IS the model's output and the specification value on the whole
      domain.  A long index is rendered as run-length encoded first differences on both sides. *)
Definition c02_as_pair (v : val) : option (Z * Z) :=
  match v with VL [VZ a; VZ b] => Some (a, b) | _ => None end.
Definition c02_as_runs (v : val) : option (list (Z * Z)) :=
  match v with VL l => opt_all (map c02_as_pair l) | _ => None end.
Definition c02_runs_okb (runs : list (Z * Z)) : bool :=
  forallb (fun p => (0 <=? fst p) && word_okb (snd p)) runs.
Definition c02_vruns (l : list (Z * Z)) : val := VL (map (fun p => VL [VZ (fst p); VZ (snd p)]) l).

Definition c02_rle_select (a : list val) : val :=
  match a with
  | [runs; i] => match c02_as_runs runs, as_z i with
      | Some runs, Some i =>
          if c02_runs_okb runs then
            match lin_Select (c02_expand_rle runs) i with
            | Some p => c02_pair p
            | None => VBad   (* i outside [0, number of 1-bits) *)
            end
          else VBad
      | _, _ => VBad end
  | _ => VBad
  end.

Definition c02_rle_index (a : list val) : val :=
  match a with
  | [runs] => match c02_as_runs runs with
      | Some runs =>
          if c02_runs_okb runs then c02_vruns (c02_index_rle (lin_IndexSelect32 (c02_expand_rle runs))) else VBad
      | None => VBad end
  | _ => VBad
  end.

Definition ops_C02_rle : list opdef := [
  {| op_name := "bitmap.Select32/rle"; op_run := c02_rle_select; op_spec := fun_spec c02_rle_select |};
  {| op_name := "bitmap.Select32R64/rle"; op_run := c02_rle_select; op_spec := fun_spec c02_rle_select |};
  {| op_name := "bitmap.IndexSelect32/rle"; op_run := c02_rle_index; op_spec := fun_spec c02_rle_index |};
  {| op_name := "bitmap.IndexSelect32R64/rle"; op_run := c02_rle_index; op_spec := fun_spec c02_rle_index |}
].

(** * widened: the UNEXPORTED select helpers (select32single, indexSelectU64, selectU64Indexed, the table itself),
      reached through the build-tag-guarded hook file bitmap/verif_export.go.  Model/SelectU64.v, Spec/SelectU64Spec.v. *)
From Low Require Import Model.SelectU64 Spec.SelectU64Spec.

(** select32single with the index built by IndexSelect32(words); any int32 [i] is in the model's domain *)
Definition c02u_single_run (ws : list Z) (i : Z) : val :=
  match IndexSelect32 ws with
  | Some sidx => match select32single ws sidx i with Some p => VZ p | None => VPanic end
  | None => VPanic
  end.

Definition c02u_u64b (w : Z) : bool := (0 <=? w) && (w <? 2 ^ 64).

Definition c02u_rle_single (a : list val) : val :=
  match a with
  | [runs; i] => match c02_as_runs runs, as_z i with
      | Some runs, Some i =>
          if c02_runs_okb runs then
            match lin_Select (c02_expand_rle runs) i with
            | Some p => VZ (fst p)
            | None => VBad   (* i outside [0, number of 1-bits) *)
            end
          else VBad
      | _, _ => VBad end
  | _ => VBad
  end.

Definition ops_C02_u64 : list opdef := [
  (* inside the domain 0 <= i < number of 1-bits: the position of the i-th 1-bit *)
  {| op_name := "bitmap.select32single";
     op_run := fun a => match a with
       | [ws; i] => match as_zs ws, as_z i with
           | Some ws, Some i => if c02_in_range ws i then c02u_single_run ws i else VBad
           | _, _ => VBad end
       | _ => VBad end;
     op_spec := fun_spec (fun a => match a with
       | [ws; i] => match as_zs ws, as_z i with
           | Some ws, Some i => VZ (fst (spec_Select ws i)) | _, _ => VBad end
       | _ => VBad end) |};
  (* the two sentinels the code returns outside it: -1 for i < 0, 64*len for i >= number of 1-bits *)
  {| op_name := "bitmap.select32single/sentinel";
     op_run := fun a => match a with
       | [ws; i] => match as_zs ws, as_z i with
           | Some ws, Some i => if c02_in_range ws i then VBad else c02u_single_run ws i
           | _, _ => VBad end
       | _ => VBad end;
     op_spec := fun_spec (fun a => match a with
       | [ws; i] => match as_zs ws, as_z i with
           | Some ws, Some i => VZ (spec_select32single ws i) | _, _ => VBad end
       | _ => VBad end) |};
  (* [select32single(ws, idx, i); Select32(ws, idx, i)] with the same index: the single result is Select32's first *)
  {| op_name := "bitmap.select32single/Select32";
     op_run := fun a => match a with
       | [ws; i] => match as_zs ws, as_z i with
           | Some ws, Some i =>
               if c02_in_range ws i then
                 match IndexSelect32 ws with
                 | Some sidx =>
                     match select32single ws sidx i, Select32 ws sidx i with
                     | Some s, Some (x, y) => VL [VZ s; VZ x; VZ y]
                     | _, _ => VPanic
                     end
                 | None => VPanic
                 end
               else VBad
           | _, _ => VBad end
       | _ => VBad end;
     op_spec := fun_spec (fun a => match a with
       | [ws; i] => match as_zs ws, as_z i with
           | Some ws, Some i => let p := spec_Select ws i in VL [VZ (fst p); VZ (fst p); VZ (snd p)]
           | _, _ => VBad end
       | _ => VBad end) |};
  (* very large run-length encoded bitmaps, judged by the linear evaluator (see ops_C02_rle) *)
  {| op_name := "bitmap.select32single/rle"; op_run := c02u_rle_single; op_spec := fun_spec c02u_rle_single |};
  (* the packed index of one word *)
  {| op_name := "bitmap.indexSelectU64";
     op_run := fun a => match a with
       | [w] => match as_z w with
           | Some w => if c02u_u64b w then VZ (indexSelectU64 w) else VBad
           | None => VBad end
       | _ => VBad end;
     op_spec := fun_spec (fun a => match a with
       | [w] => match as_z w with Some w => VZ (spec_indexSelectU64 w) | None => VBad end
       | _ => VBad end) |};
  (* selectU64Indexed(w, indexSelectU64(w), k) for k < number of 1-bits of w: [position, second result] *)
  {| op_name := "bitmap.selectU64Indexed";
     op_run := fun a => match a with
       | [w; k] => match as_z w, as_z k with
           | Some w, Some k =>
               if c02u_u64b w && (0 <=? k) && (k <? popcount w) then
                 match selectU64Indexed w (indexSelectU64 w) k with
                 | Some p => c02_pair p
                 | None => VPanic
                 end
               else VBad
           | _, _ => VBad end
       | _ => VBad end;
     op_spec := fun_spec (fun a => match a with
       | [w; k] => match as_z w, as_z k with
           | Some w, Some k => c02_pair (spec_selectU64 w k) | _, _ => VBad end
       | _ => VBad end) |};
  (* [selectU64Indexed(w, indexSelectU64(w), k) position; Select32([w], IndexSelect32([w]), k) first]: the two
     in-word searches agree *)
  {| op_name := "bitmap.selectU64Indexed/Select32";
     op_run := fun a => match a with
       | [w; k] => match as_z w, as_z k with
           | Some w, Some k =>
               if c02u_u64b w && (0 <=? k) && (k <? popcount w) then
                 match selectU64Indexed w (indexSelectU64 w) k, IndexSelect32 [w] with
                 | Some (p, _), Some sidx =>
                     match Select32 [w] sidx k with
                     | Some (x, _) => VL [VZ p; VZ x]
                     | None => VPanic
                     end
                 | _, _ => VPanic
                 end
               else VBad
           | _, _ => VBad end
       | _ => VBad end;
     op_spec := fun_spec (fun a => match a with
       | [w; k] => match as_z w, as_z k with
           | Some w, Some k => let p := fst (spec_selectU64 w k) in VL [VZ p; VZ p] | _, _ => VBad end
       | _ => VBad end) |};
  (* row b of the byte table select8Lookup (8 entries), as the package initialised it *)
  {| op_name := "bitmap.select8Lookup/row";
     op_run := fun a => match a with
       | [b] => match as_z b with
           | Some b => if (0 <=? b) && (b <? 256) then vzs (firstn 8 (skipn (Z.to_nat (8 * b)) select8Lookup)) else VBad
           | None => VBad end
       | _ => VBad end;
     op_spec := fun_spec (fun a => match a with
       | [b] => match as_z b with Some b => vzs (spec_select8_row b) | None => VBad end
       | _ => VBad end) |}
].

(** * session on ONE held word buffer (seeded change C02-c02c-m1: a global "sequential access" hint keyed on the buffer's
      address): args = [ws; steps], step [0; i] = Select32R64(buf, current indexes, i), step [1; k; x] = buf[k] = x in place
      followed by IndexSelect32R64(buf) (the indexes every later query uses).  Observed: one value per step ([a; b] / 0). *)
Fixpoint c02_set_word (ws : list Z) (k : nat) (x : Z) : list Z :=
  match ws, k with
  | [], _ => []
  | _ :: t, O => x :: t
  | w :: t, S k' => w :: c02_set_word t k' x
  end.

(** a step: [0; i] = query, [1; k; x] = write word k *)
Definition c02_parse_step (v : val) : option (Z + Z * Z) :=
  match v with
  | VL [VZ 0; VZ i] => Some (inl i)
  | VL [VZ 1; VZ k; VZ x] => Some (inr (k, x))
  | _ => None
  end.

Fixpoint c02_session_run (sel : list Z -> Z -> val) (ws : list Z) (steps : list val) : list val :=
  match steps with
  | [] => []
  | st :: t =>
      match c02_parse_step st with
      | Some (inl i) => sel ws i :: c02_session_run sel ws t
      | Some (inr (k, x)) =>
          if (0 <=? k) && (k <? zlen ws) && word_okb x
          then VZ 0 :: c02_session_run sel (c02_set_word ws (Z.to_nat k) x) t
          else [VBad]
      | None => [VBad]
      end
  end.

Definition c02_session_model_sel (ws : list Z) (i : Z) : val :=
  if c02_in_range ws i then
    match IndexSelect32R64 ws with
    | Some (sidx, ridx) => match Select32R64 ws sidx ridx i with Some p => c02_pair p | None => VPanic end
    | None => VPanic
    end
  else VBad.

Definition c02_session_spec_sel (ws : list Z) (i : Z) : val := c02_pair (spec_Select ws i).

Definition c02_session (sel : list Z -> Z -> val) (a : list val) : val :=
  match a with
  | [ws; VL steps] => match as_zs ws with
      | Some ws => let r := c02_session_run sel ws steps in
                   if existsb (fun v => match v with VBad => true | _ => false end) r then VBad else VL r
      | None => VBad end
  | _ => VBad
  end.

Definition ops_C02_session : list opdef := [
  {| op_name := "bitmap.Select32R64/session";
     op_run := c02_session c02_session_model_sel;
     op_spec := fun_spec (c02_session c02_session_spec_sel) |}
].

Definition ops_C02 : list opdef :=
  ops_C02_base ++ ops_C02_widen ++ ops_C02_next ++ ops_C02_toarray ++ ops_C02_prev ++ ops_C02_heldidx ++ ops_C02_rle
  ++ ops_C02_u64 ++ ops_C02_session.
