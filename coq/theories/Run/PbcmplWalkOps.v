(** Protocol values of the walk operations (widening of C06 / C07; Model/PbcmplWalk.v). *)
From Coq Require Import ZArith List Bool String.
From Low Require Import Lib.BitSeq Lib.Bytes Lib.Val Model.Pbcmpl Model.PbcmplWalk
  Spec.PbcmplSpec Spec.PbcmplWalkSpec Run.PbcmplOps.
Import ListNotations.
Open Scope Z_scope.

(** [n, errclass, version, header size, body size, body bytes read, refused] *)
Definition v_wstep (s : wstep) : val :=
  let '(n, err, ver, hs, bs, body, refused) := s in
  VL [VZ n; v_err err; vzs ver; VZ hs; VZ bs; vzs body; vbool refused].

Definition v_walk_model (r : creader) : val :=
  match c_Walk r with
  | None => VPanic
  | Some (steps, r') => VL [VL (map v_wstep steps); vzs (rd_bytes r')]
  end.

Definition v_walk_spec (s : list Z) (t : terminal) : val :=
  let '(steps, lft) := spec_Walk s t in VL [VL (map v_wstep steps); vzs lft].

(** the wire of a list of messages as the model's Marshal writes it *)
Definition model_wire (kind : Z) (ms : list (option (list Z) * list Z)) : option (list Z) :=
  match opt_all (map (fun m => s_Marshal kind [] (snd m) (fst m)) ms) with
  | None => None
  | Some rs => Some (List.concat (map (fun r => snd (snd r)) rs))
  end.

Definition walk_body_ok (kind : Z) (m : option (list Z) * list Z) : bool :=
  zlen (k_enc kind (snd m)) <=? walk_limit.

(** widening: Reads that return (0, nil).  [insert_empties pos cs] inserts an empty chunk
    BEFORE the chunk of index [p mod |cs|], for each [p] of [pos] in turn (so never
    after the last chunk; nothing is inserted into an empty list). *)
Fixpoint insert_at {A} (n : nat) (x : A) (l : list A) : list A :=
  match n, l with
  | O, _ => x :: l
  | S k, y :: t => y :: insert_at k x t
  | S k, [] => [x]
  end.

Definition insert_empties (pos : list Z) (cs : list (list Z)) : list (list Z) :=
  fold_left (fun cs p => match cs with
                         | [] => cs
                         | _ => insert_at (Z.to_nat (p mod zlen cs)) [] cs
                         end) pos cs.

Definition all_nonneg (l : list Z) : bool := forallb (fun k => 0 <=? k) l.
