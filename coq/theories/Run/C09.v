(** Protocol operations for C09 (see Lib/Val.v).  Bit strings are always
    given as (s, from, to) and encoded by the real [New] in the executor, so
    every case ties New and the function under test to the code.  The model
    side runs the int32-faithful New32 / Len32 (Model/Bitstr32.v; equal to New / Len
    of Model/Bitstr.v on the whole int32 range since the /repo fix b2a771a —
    Proofs/Bitstr32Proofs.v). *)
From Coq Require Import ZArith List Bool String.
From Low Require Import Lib.Bits Lib.BitSeq Lib.Bytes Lib.Lex Lib.Val Lib.Pack_bw Model.Bitstr Model.Bitstr32 Spec.BitstrSpec Spec.BitstrSearchSpec Spec.BitstrDecodeSpec.
Import ListNotations.
Open Scope string_scope.
Open Scope Z_scope.

(** the domain of New: 0 <= from <= to <= 8*len(s), s a byte string *)
Definition range_ok (s : list Z) (f t : Z) : bool :=
  bytes_okb s && (0 <=? f) && (f <=? t) && (t <=? 8 * zlen s).

Definition c09_oz (o : option Z) : val := match o with Some z => VZ z | None => VPanic end.

Definition bind {A B} (o : option A) (f : A -> option B) : option B :=
  match o with Some x => f x | None => None end.

Fixpoint c09_bits_eqb (a b : list bool) : bool :=
  match a, b with
  | [], [] => true
  | x :: a', y :: b' => Bool.eqb x y && c09_bits_eqb a' b'
  | _, _ => false
  end.

Definition ops_C09 : list opdef := [
  {| op_name := "bitstr.New";
     op_run := fun a => match a with
       | [s; f; t] => match as_zs s, as_z f, as_z t with
           | Some s, Some f, Some t =>
               if range_ok s f t then match New32 s f t with Some e => vzs e | None => VPanic end else VBad
           | _, _, _ => VBad end
       | _ => VBad end;
     op_spec := fun_spec (fun a => match a with
       | [s; f; t] => match as_zs s, as_z f, as_z t with
           | Some s, Some f, Some t => vzs (spec_New s f t) | _, _, _ => VBad end
       | _ => VBad end) |};
  (* Len(New(s,f,t)) *)
  {| op_name := "bitstr.Len";
     op_run := fun a => match a with
       | [s; f; t] => match as_zs s, as_z f, as_z t with
           | Some s, Some f, Some t =>
               if range_ok s f t then c09_oz (bind (New32 s f t) Len32) else VBad
           | _, _, _ => VBad end
       | _ => VBad end;
     op_spec := fun_spec (fun a => match a with
       | [s; f; t] => match as_zs s, as_z f, as_z t with
           | Some s, Some f, Some t => VZ (spec_Len s f t) | _, _, _ => VBad end
       | _ => VBad end) |};
  (* Cmp(New(s1,f1,t1), New(s2,f2,t2)) *)
  {| op_name := "bitstr.Cmp";
     op_run := fun a => match a with
       | [s1; f1; t1; s2; f2; t2] => match as_zs s1, as_z f1, as_z t1, as_zs s2, as_z f2, as_z t2 with
           | Some s1, Some f1, Some t1, Some s2, Some f2, Some t2 =>
               if range_ok s1 f1 t1 && range_ok s2 f2 t2 then
                 c09_oz (bind (New32 s1 f1 t1) (fun e1 => bind (New32 s2 f2 t2) (fun e2 => Cmp e1 e2)))
               else VBad
           | _, _, _, _, _, _ => VBad end
       | _ => VBad end;
     op_spec := fun_spec (fun a => match a with
       | [s1; f1; t1; s2; f2; t2] => match as_zs s1, as_z f1, as_z t1, as_zs s2, as_z f2, as_z t2 with
           | Some s1, Some f1, Some t1, Some s2, Some f2, Some t2 => VZ (spec_Cmp s1 f1 t1 s2 f2 t2)
           | _, _, _, _, _, _ => VBad end
       | _ => VBad end) |};
  (* [CmpUpto(a, New(s,f,t)), inputs unchanged by the call] *)
  {| op_name := "bitstr.CmpUpto";
     op_run := fun a => match a with
       | [x; s; f; t] => match as_zs x, as_zs s, as_z f, as_z t with
           | Some x, Some s, Some f, Some t =>
               if bytes_okb x && range_ok s f t then
                 match bind (New32 s f t) (CmpUpto x) with Some r => VL [VZ r; VZ 1] | None => VPanic end
               else VBad
           | _, _, _, _ => VBad end
       | _ => VBad end;
     op_spec := fun_spec (fun a => match a with
       | [x; s; f; t] => match as_zs x, as_zs s, as_z f, as_z t with
           | Some x, Some s, Some f, Some t => VL [VZ (spec_CmpUpto x s f t); VZ 1]
           | _, _, _, _ => VBad end
       | _ => VBad end) |};
  (* [StrCmpUpto(string(a), e), CmpUpto(a, e), inputs unchanged]  with e = New(s,f,t) *)
  {| op_name := "bitstr.StrCmpUpto";
     op_run := fun a => match a with
       | [x; s; f; t] => match as_zs x, as_zs s, as_z f, as_z t with
           | Some x, Some s, Some f, Some t =>
               if bytes_okb x && range_ok s f t then
                 match bind (New32 s f t) (StrCmpUpto x), bind (New32 s f t) (CmpUpto x) with
                 | Some r, Some r' => VL [VZ r; VZ r'; VZ 1]
                 | _, _ => VPanic end
               else VBad
           | _, _, _, _ => VBad end
       | _ => VBad end;
     op_spec := fun_spec (fun a => match a with
       | [x; s; f; t] => match as_zs x, as_zs s, as_z f, as_z t with
           | Some x, Some s, Some f, Some t =>
               VL [VZ (spec_CmpUpto x s f t); VZ (spec_CmpUpto x s f t); VZ 1]
           | _, _, _, _ => VBad end
       | _ => VBad end) |};
  (* WIDENED: [CmpUpto(a, e), Cmp(New(a, 0, min(8*len(a), Len(e))), e)]: truncate-compare = compare of the truncation *)
  {| op_name := "bitstr.CmpUpto/viaNew";
     op_run := fun a => match a with
       | [x; s; f; t] => match as_zs x, as_zs s, as_z f, as_z t with
           | Some x, Some s, Some f, Some t =>
               if bytes_okb x && range_ok s f t then
                 match bind (New32 s f t) (fun e =>
                         bind (CmpUpto x e) (fun r1 =>
                         bind (Len32 e) (fun n =>
                         bind (New32 x 0 (Z.min (8 * zlen x) n)) (fun e2 =>
                         bind (Cmp e2 e) (fun r2 => Some [r1; r2]))))) with
                 | Some rs => vzs rs | None => VPanic end
               else VBad
           | _, _, _, _ => VBad end
       | _ => VBad end;
     op_spec := fun_spec (fun a => match a with
       | [x; s; f; t] => match as_zs x, as_zs s, as_z f, as_z t with
           | Some x, Some s, Some f, Some t =>
               VL [VZ (spec_CmpUpto x s f t); VZ (spec_CmpUpto x s f t)]
           | _, _, _, _ => VBad end
       | _ => VBad end) |};
  (* WIDENED: [CmpUpto(k, e) for k in keys], keys sorted by bytes.Compare: the results must be the
     spec's values and (hence) non-decreasing, i.e. the matches form one contiguous block *)
  {| op_name := "bitstr.CmpUpto/sorted";
     op_run := fun a => match a with
       | [ks; s; f; t] => match as_zss ks, as_zs s, as_z f, as_z t with
           | Some ks, Some s, Some f, Some t =>
               if forallb bytes_okb ks && keys_sortedb ks && range_ok s f t then
                 match bind (New32 s f t) (fun e => opt_all (map (fun k => CmpUpto k e) ks)) with
                 | Some rs => vzs rs | None => VPanic end
               else VBad
           | _, _, _, _ => VBad end
       | _ => VBad end;
     op_spec := fun a obs => match a with
       | [ks; s; f; t] => match as_zss ks, as_zs s, as_z f, as_z t with
           | Some ks, Some s, Some f, Some t =>
               val_eqb (vzs (spec_search ks (B s f t))) obs
               && match as_zs obs with Some rs => nondecb rs | None => false end
           | _, _, _, _ => false end
       | _ => false end |};
  (* WIDENED: New's output is a well-formed encoding and DEcodes to the bit string of the range
     (relational reading of "New encodes s[8*floor(from/8), to)") *)
  {| op_name := "bitstr.New/decode";
     op_run := fun a => match a with
       | [s; f; t] => match as_zs s, as_z f, as_z t with
           | Some s, Some f, Some t =>
               if range_ok s f t then match New32 s f t with Some e => vzs e | None => VPanic end else VBad
           | _, _, _ => VBad end
       | _ => VBad end;
     op_spec := fun a obs => match a with
       | [s; f; t] => match as_zs s, as_z f, as_z t, as_zs obs with
           | Some s, Some f, Some t, Some e => wf_enc e && c09_bits_eqb (decB e) (B s f t)
           | _, _, _, _ => false end
       | _ => false end |}
].
