(** Protocol operations for C04 (see Lib/Val.v). *)
From Coq Require Import ZArith List Bool String.
From Low Require Import Lib.MachInt Lib.Bits Lib.BitSeq Lib.Lex Lib.Bytes Lib.Val
  Spec.Bmtree Spec.AllPathsSpec Spec.FromStr32Spec Spec.PathsOfSortedSpec
  Model.BmtreePath Model.BmtreeIndex Model.BmtreeAllPaths Model.BitmapOf Model.FromStr32.
Import ListNotations.
Open Scope string_scope.
Open Scope Z_scope.

Definition c04_h (T : Z) : nat := Z.to_nat (Height T).
Definition c04_T_ok (T : Z) : bool := (1 <=? T) && (T <? 2 ^ 31).
Definition c04_u64 (x : Z) : bool := (0 <=? x) && (x <? 2 ^ 64).

(** [dbg] selects the model of the build under test (see below).  On trees higher than 10 the
    model side of Decode is evaluated by the linear-time [fast_decode], which is proved equal to
    the model of both builds (Properties/C04.v: C04_decode_fast), so that a height-16 case costs
    milliseconds instead of seconds. *)
Definition c04_pti (dbg : bool) := if dbg then PathToIndex_debug else PathToIndex.
Definition c04_dec (dbg : bool) (T : Z) (bm : list Z) : option (list Z) :=
  if Height T <=? 10 then (if dbg then Decode_debug else Decode) T bm
  else Some (fast_decode T (c04_h T) bm).

(** a node as a 0/1 list *)
Definition c04_node (v : val) : option node :=
  match as_zs v with
  | Some l => if forallb (fun z => (z =? 0) || (z =? 1)) l then Some (map (fun z => z =? 1) l) else None
  | None => None
  end.
Definition c04_nodes (v : val) : option (list node) :=
  match v with VL l => opt_all (map c04_node l) | _ => None end.

(** both sides build the path word with NewPath (Go: bmtree.NewPath(bits left-aligned in h, len, h)) *)
Definition c04_word (T : Z) (q : node) : Z :=
  let h := Height T in NewPath (valL (Z.to_nat h) q) (zlen q) h.

(** S is a sub-list of [stored_nodes T h]: every node is on a stored level, not deeper than h,
    and the list is strictly ascending in pre-order *)
Fixpoint c04_sorted (l : list node) : bool :=
  match l with
  | a :: ((b :: _) as t) => pre_ltb a b && c04_sorted t
  | _ => true
  end.
Definition c04_sub_ok (T : Z) (ss : list node) : bool :=
  forallb (fun q => (zlen q <=? Height T) && stored T q) ss && c04_sorted ss.

(** encode the nodes of S as the bitmap Of(map PathToIndex S), then Decode it *)
Definition c04_roundtrip (dbg : bool) (T : Z) (ss : list node) : option (list Z) :=
  match opt_all (map (fun q => (if dbg then PathToIndex_debug else PathToIndex) T (c04_word T q)) ss) with
  | None => None
  | Some idxs =>
      match Of idxs None with
      | None => None
      | Some bm => c04_dec dbg T bm
      end
  end.

(** the correspondence domain (the harness refuses anything else, so that a shrinking step cannot
    ask either side for 2^30 words): at most 2^13 search values in the window, Decode on heights <= 17 *)
Definition c04_win_ok (T f t : Z) : bool :=
  let h := Height T in
  let t0 := shr64 t 32 + 1 in
  let tt := if t0 >? 2 ^ h then 2 ^ h else t0 in
  tt - shr64 f 32 <=? 8192.
Definition c04_dec_ok (T : Z) : bool := Height T <=? 17.

Definition c04_run_allpaths (a : list val) : val :=
  match a with
  | [T; f; t] => match as_z T, as_z f, as_z t with
      | Some T, Some f, Some t =>
          if c04_T_ok T && c04_u64 f && c04_u64 t && c04_win_ok T f t then
            match AllPaths T f t with Some l => vzs l | None => VPanic end
          else VBad
      | _, _, _ => VBad end
  | _ => VBad end.
Definition c04_spec_allpaths (a : list val) : val :=
  match a with
  | [T; f; t] => match as_z T, as_z f, as_z t with
      | Some T, Some f, Some t => vzs (check_allpaths T (c04_h T) f t)
      | _, _, _ => VBad end
  | _ => VBad end.

(** [dbg] selects the model of the build under test: release (contracts compiled out) or
    [-tags debug] (PathToIndex runs its contracts first).  The specification is the same. *)

Definition c04_run_decode_b (dbg : bool) (a : list val) : val :=
  match a with
  | [T; bm] => match as_z T, as_zs bm with
      | Some T, Some bm =>
          if c04_T_ok T && c04_dec_ok T && words_okb bm then
            match c04_dec dbg T bm with Some l => vzs l | None => VPanic end
          else VBad
      | _, _ => VBad end
  | _ => VBad end.
Definition c04_run_decode := c04_run_decode_b false.
Definition c04_spec_decode (a : list val) : val :=
  match a with
  | [T; bm] => match as_z T, as_zs bm with
      | Some T, Some bm => vzs (check_decode T (c04_h T) bm)
      | _, _ => VBad end
  | _ => VBad end.

(** "held" variants: two calls, then both results are read (a result that aliases a reused
    buffer is overwritten by the second call) *)
Definition c04_two (f : list val -> val) (a : list val) : val :=
  match a with
  | [VL a1; VL a2] =>
      match f a1, f a2 with
      | VBad, _ | _, VBad => VBad
      | r1, r2 => VL [r1; r2]
      end
  | _ => VBad end.

(** widening: adjacent windows [a,b) and [b,c) and their union [a,c) *)
Definition c04_run_split (a : list val) : val :=
  match a with
  | [T; x; y; z] => match as_z T, as_z x, as_z y, as_z z with
      | Some T, Some x, Some y, Some z =>
          if c04_T_ok T && c04_u64 x && c04_u64 z && (x <=? y) && (y <=? z) && c04_win_ok T x z then
            match AllPaths T x y, AllPaths T y z, AllPaths T x z with
            | Some l1, Some l2, Some l3 => VL [vzs l1; vzs l2; vzs l3]
            | _, _, _ => VPanic end
          else VBad
      | _, _, _, _ => VBad end
  | _ => VBad end.
Definition c04_spec_split (a : list val) : val :=
  match a with
  | [T; x; y; z] => match as_z T, as_z x, as_z y, as_z z with
      | Some T, Some x, Some y, Some z =>
          let l1 := check_allpaths T (c04_h T) x y in
          let l2 := check_allpaths T (c04_h T) y z in
          VL [vzs l1; vzs l2; vzs (l1 ++ l2)]
      | _, _, _, _ => VBad end
  | _ => VBad end.

(** widening: the PathToIndex values of the words of a window: consecutive integers starting at
    the number of stored words below [from] *)
Definition c04_run_index (dbg : bool) (a : list val) : val :=
  match a with
  | [T; f; t] => match as_z T, as_z f, as_z t with
      | Some T, Some f, Some t =>
          if c04_T_ok T && c04_dec_ok T && c04_u64 f && c04_u64 t && c04_win_ok T f t then
            match AllPaths T f t with
            | Some l => match opt_all (map (c04_pti dbg T) l) with Some r => vzs r | None => VPanic end
            | None => VPanic end
          else VBad
      | _, _, _ => VBad end
  | _ => VBad end.
Definition c04_spec_index (a : list val) : val :=
  match a with
  | [T; f; t] => match as_z T, as_z f, as_z t with
      | Some T, Some f, Some t =>
          let W := stored_words T (c04_h T) in
          vzs (map Z.of_nat (seq (List.length (filter (fun w => w <? f) W)) (List.length (spec_allpaths T (c04_h T) f t))))
      | _, _, _ => VBad end
  | _ => VBad end.

(** widening: Decode, then re-encode: [PathToIndex of the decoded words; ToArray-style 1-bits of Of(them)] *)
Definition c04_run_reencode (dbg : bool) (a : list val) : val :=
  match a with
  | [T; bm] => match as_z T, as_zs bm with
      | Some T, Some bm =>
          if c04_T_ok T && c04_dec_ok T && words_okb bm then
            match c04_dec dbg T bm with
            | Some l => match opt_all (map (c04_pti dbg T) l) with
                | Some idxs => match Of idxs None with
                    | Some r => VL [vzs idxs; vzs r]
                    | None => VPanic end
                | None => VPanic end
            | None => VPanic end
          else VBad
      | _, _ => VBad end
  | _ => VBad end.
(** the checker: the indices are the 1-bits of bm below T; the re-encoded bitmap has exactly those 1-bits
    and no more words than needed for the last of them *)
Definition c04_spec_reencode (a : list val) (obs : val) : bool :=
  match a, obs with
  | [T; bm], VL [oi; orr] => match as_z T, as_zs bm, as_zs oi, as_zs orr with
      | Some T, Some bm, Some idxs, Some r =>
          let want := filter (fun p => p <? T) (ones (flat bm)) in
          val_eqb (vzs idxs) (vzs want) && words_okb r && val_eqb (vzs (ones (flat r))) (vzs want) &&
          (zlen r =? (match want with [] => 0 | _ => last want 0 + 1 end + 63) / 64)
      | _, _, _, _ => false end
  | _, _ => false end.

(** widening across C11/C03/C12: keys -> PathsOf (dedup) -> PathToIndex -> Of -> Decode.
    Domain: byte strings in Go's string order sharing their first [from] bits, every path length a
    stored level of T. *)
Definition c04_keys_ok (T from : Z) (keys : list (list Z)) : bool :=
  c04_T_ok T && c04_dec_ok T && (0 <=? from) && (from <? 2 ^ 20) &&
  forallb (fun s => bytes_okb s && (zlen s <? 2 ^ 20)) keys &&
  keys_sortedb keys && same_prefixb from keys &&
  forallb (fun s => Z.testbit T (clamp (8 * zlen s - from) 0 (Height T))) keys.

Definition c04_run_keys (dbg : bool) (a : list val) : val :=
  match a with
  | [T; from; keys] => match as_z T, as_z from, as_zss keys with
      | Some T, Some from, Some keys =>
          if c04_keys_ok T from keys then
            match PathsOf keys from (Height T) true with
            | None => VPanic
            | Some ps =>
                match opt_all (map (c04_pti dbg T) ps) with
                | None => VPanic
                | Some idxs =>
                    match Of idxs None with
                    | None => VPanic
                    | Some bm => match c04_dec dbg T bm with Some l => VL [vzs ps; vzs l] | None => VPanic end
                    end
                end
            end
          else VBad
      | _, _, _ => VBad end
  | _ => VBad end.
Definition c04_spec_keys (a : list val) : val :=
  match a with
  | [T; from; keys] => match as_z T, as_z from, as_zss keys with
      | Some T, Some from, Some keys =>
          let ps := spec_PathsOf keys from (Height T) true in VL [vzs ps; vzs ps]
      | _, _, _ => VBad end
  | _ => VBad end.

(** widening: the sub-tree of a node as a window: from = word of q, to = word of the right-most
    leaf below q, plus one (at most 2^13 leaves below q) *)
Definition c04_run_subtree (a : list val) : val :=
  match a with
  | [T; q] => match as_z T, c04_node q with
      | Some T, Some q =>
          if c04_T_ok T && (zlen q <=? Height T) && (Height T - zlen q <=? 13) then
            let k := (c04_h T - List.length q)%nat in
            match AllPaths T (c04_word T q) (c04_word T (q ++ repeat true k)%list + 1) with
            | Some l => vzs l | None => VPanic end
          else VBad
      | _, _ => VBad end
  | _ => VBad end.
Definition c04_spec_subtree (a : list val) : val :=
  match a with
  | [T; q] => match as_z T, c04_node q with
      | Some T, Some q => vzs (spec_subtree T (c04_h T) q)
      | _, _ => VBad end
  | _ => VBad end.

(** a session: AllPaths / Decode calls executed in order in one process (a result that depends on
    state left behind by an earlier call - a cache keyed too coarsely - differs from the model, which
    answers every call on its own).  A call is [0; T; from; to] or [1; T; bm]. *)
Definition c04_call (fa fd : list val -> val) (c : val) : val :=
  match c with
  | VL (VZ 0 :: rest) => fa rest
  | VL (VZ 1 :: rest) => fd rest
  | _ => VBad
  end.
Definition c04_is_bad (v : val) : bool := match v with VBad => true | _ => false end.
Definition c04_session (fa fd : list val -> val) (a : list val) : val :=
  match a with
  | [VL calls] =>
      let rs := map (c04_call fa fd) calls in
      if existsb c04_is_bad rs then VBad else VL rs
  | _ => VBad
  end.

Definition c04_run_roundtrip (dbg : bool) (a : list val) : val :=
  match a with
  | [T; ss] => match as_z T, c04_nodes ss with
      | Some T, Some ss =>
          if c04_T_ok T && c04_dec_ok T && c04_sub_ok T ss then
            match c04_roundtrip dbg T ss with Some l => vzs l | None => VPanic end
          else VBad
      | _, _ => VBad end
  | _ => VBad end.
Definition c04_spec_roundtrip (a : list val) : val :=
  match a with
  | [T; ss] => match as_z T, c04_nodes ss with
      | Some T, Some ss => vzs (map (enc (c04_h T)) ss)
      | _, _ => VBad end
  | _ => VBad end.

Definition ops_C04 : list opdef := [
  (* AllPaths(T, from, to): the returned slice *)
  {| op_name := "bmtree.AllPaths"; op_run := c04_run_allpaths; op_spec := fun_spec c04_spec_allpaths |};
  {| op_name := "bmtree.AllPaths/held"; op_run := c04_two c04_run_allpaths; op_spec := fun_spec (c04_two c04_spec_allpaths) |};
  {| op_name := "bmtree.AllPaths/split"; op_run := c04_run_split; op_spec := fun_spec c04_spec_split |};
  (* Decode(T, bm): the returned slice; release and debug build *)
  {| op_name := "bmtree.Decode"; op_run := c04_run_decode; op_spec := fun_spec c04_spec_decode |};
  {| op_name := "bmtree.Decode/debug"; op_run := c04_run_decode_b true; op_spec := fun_spec c04_spec_decode |};
  {| op_name := "bmtree.Decode/held"; op_run := c04_two c04_run_decode; op_spec := fun_spec (c04_two c04_spec_decode) |};
  (* compositions with PathToIndex (called by the harness itself): release and debug build *)
  {| op_name := "bmtree.AllPaths/index"; op_run := c04_run_index false; op_spec := fun_spec c04_spec_index |};
  {| op_name := "bmtree.AllPaths/index/debug"; op_run := c04_run_index true; op_spec := fun_spec c04_spec_index |};
  {| op_name := "bmtree.Decode/reencode"; op_run := c04_run_reencode false; op_spec := c04_spec_reencode |};
  {| op_name := "bmtree.Decode/reencode/debug"; op_run := c04_run_reencode true; op_spec := c04_spec_reencode |};
  (* Decode(T, Of(map PathToIndex S)) for a sub-list S of the stored nodes: the words of S *)
  {| op_name := "bmtree.Decode/roundtrip"; op_run := c04_run_roundtrip false; op_spec := fun_spec c04_spec_roundtrip |};
  {| op_name := "bmtree.Decode/roundtrip/debug"; op_run := c04_run_roundtrip true; op_spec := fun_spec c04_spec_roundtrip |};
  {| op_name := "bmtree.Session"; op_run := c04_session c04_run_allpaths c04_run_decode;
     op_spec := fun_spec (c04_session c04_spec_allpaths c04_spec_decode) |};
  {| op_name := "bmtree.AllPaths/subtree"; op_run := c04_run_subtree; op_spec := fun_spec c04_spec_subtree |};
  (* keys -> PathsOf -> PathToIndex -> Of -> Decode *)
  {| op_name := "bmtree.PathsOf/decode"; op_run := c04_run_keys false; op_spec := fun_spec c04_spec_keys |};
  {| op_name := "bmtree.PathsOf/decode/debug"; op_run := c04_run_keys true; op_spec := fun_spec c04_spec_keys |}
].
