(** Protocol operations for C04 (see Lib/Val.v). *)
From Coq Require Import ZArith List Bool String.
From Low Require Import Lib.MachInt Lib.Bits Lib.BitSeq Lib.Lex Lib.Bytes Lib.Val
  Spec.Bmtree Spec.AllPathsSpec Model.BmtreePath Model.BmtreeIndex Model.BmtreeAllPaths Model.BitmapOf.
Import ListNotations.
Open Scope string_scope.
Open Scope Z_scope.

Definition c04_h (T : Z) : nat := Z.to_nat (Height T).
Definition c04_T_ok (T : Z) : bool := (1 <=? T) && (T <? 2 ^ 31).
Definition c04_u64 (x : Z) : bool := (0 <=? x) && (x <? 2 ^ 64).

(** a node as a 0/1 list *)
Definition c04_node (v : val) : option node :=
  match as_zs v with
  | Some l => if forallb (fun z => (z =? 0) || (z =? 1)) l then Some (map (fun z => z =? 1) l) else None
  | None => None
  end.
Definition c04_nodes (v : val) : option (list node) :=
  match v with VL l => opt_all (map c04_node l) | _ => None end.

(** both sides build the path word with NewPath (Go: bmtree.NewPath(bits left-aligned in h, len, h)) *)
Definition c04_word (T : Z) (q : node) : Z :=
  let h := Height T in NewPath (valL (Z.to_nat h) q) (zlen q) h.

(** S is a sub-list of [stored_nodes T h]: every node is on a stored level, not deeper than h,
    and the list is strictly ascending in pre-order *)
Fixpoint c04_sorted (l : list node) : bool :=
  match l with
  | a :: ((b :: _) as t) => pre_ltb a b && c04_sorted t
  | _ => true
  end.
Definition c04_sub_ok (T : Z) (ss : list node) : bool :=
  forallb (fun q => (zlen q <=? Height T) && stored T q) ss && c04_sorted ss.

(** encode the nodes of S as the bitmap Of(map PathToIndex S), then Decode it *)
Definition c04_roundtrip (T : Z) (ss : list node) : option (list Z) :=
  match opt_all (map (fun q => PathToIndex T (c04_word T q)) ss) with
  | None => None
  | Some idxs =>
      match Of idxs None with
      | None => None
      | Some bm => Decode T bm
      end
  end.

(** the correspondence domain (the harness refuses anything else, so that a shrinking step cannot
    ask either side for 2^30 words): at most 2^13 search values in the window, Decode on heights <= 14 *)
Definition c04_win_ok (T f t : Z) : bool :=
  let h := Height T in
  let t0 := shr64 t 32 + 1 in
  let tt := if t0 >? 2 ^ h then 2 ^ h else t0 in
  tt - shr64 f 32 <=? 8192.
Definition c04_dec_ok (T : Z) : bool := Height T <=? 14.

Definition c04_run_allpaths (a : list val) : val :=
  match a with
  | [T; f; t] => match as_z T, as_z f, as_z t with
      | Some T, Some f, Some t =>
          if c04_T_ok T && c04_u64 f && c04_u64 t && c04_win_ok T f t then
            match AllPaths T f t with Some l => vzs l | None => VPanic end
          else VBad
      | _, _, _ => VBad end
  | _ => VBad end.
Definition c04_spec_allpaths (a : list val) : val :=
  match a with
  | [T; f; t] => match as_z T, as_z f, as_z t with
      | Some T, Some f, Some t => vzs (check_allpaths T (c04_h T) f t)
      | _, _, _ => VBad end
  | _ => VBad end.

Definition c04_run_decode (a : list val) : val :=
  match a with
  | [T; bm] => match as_z T, as_zs bm with
      | Some T, Some bm =>
          if c04_T_ok T && c04_dec_ok T && words_okb bm then
            match Decode T bm with Some l => vzs l | None => VPanic end
          else VBad
      | _, _ => VBad end
  | _ => VBad end.
Definition c04_spec_decode (a : list val) : val :=
  match a with
  | [T; bm] => match as_z T, as_zs bm with
      | Some T, Some bm => vzs (spec_decode T (c04_h T) bm)
      | _, _ => VBad end
  | _ => VBad end.

(** "held" variants: two calls, then both results are read (a result that aliases a reused
    buffer is overwritten by the second call) *)
Definition c04_two (f : list val -> val) (a : list val) : val :=
  match a with
  | [VL a1; VL a2] =>
      match f a1, f a2 with
      | VBad, _ | _, VBad => VBad
      | r1, r2 => VL [r1; r2]
      end
  | _ => VBad end.

Definition ops_C04 : list opdef := [
  (* AllPaths(T, from, to): the returned slice *)
  {| op_name := "bmtree.AllPaths"; op_run := c04_run_allpaths; op_spec := fun_spec c04_spec_allpaths |};
  {| op_name := "bmtree.AllPaths/held"; op_run := c04_two c04_run_allpaths; op_spec := fun_spec (c04_two c04_spec_allpaths) |};
  (* Decode(T, bm): the returned slice *)
  {| op_name := "bmtree.Decode"; op_run := c04_run_decode; op_spec := fun_spec c04_spec_decode |};
  {| op_name := "bmtree.Decode/held"; op_run := c04_two c04_run_decode; op_spec := fun_spec (c04_two c04_spec_decode) |};
  (* Decode(T, Of(map PathToIndex S)) for a sub-list S of the stored nodes: the words of S *)
  {| op_name := "bmtree.Decode/roundtrip";
     op_run := fun a => match a with
       | [T; ss] => match as_z T, c04_nodes ss with
           | Some T, Some ss =>
               if c04_T_ok T && c04_dec_ok T && c04_sub_ok T ss then
                 match c04_roundtrip T ss with Some l => vzs l | None => VPanic end
               else VBad
           | _, _ => VBad end
       | _ => VBad end;
     op_spec := fun_spec (fun a => match a with
       | [T; ss] => match as_z T, c04_nodes ss with
           | Some T, Some ss => vzs (map (enc (c04_h T)) ss)
           | _, _ => VBad end
       | _ => VBad end) |}
].
