(** Protocol operations for C04 (see Lib/Val.v). *)
From Coq Require Import ZArith List Bool String.
From Low Require Import Lib.MachInt Lib.Bits Lib.BitSeq Lib.Lex Lib.Bytes Lib.Val
  Spec.Bmtree Spec.AllPathsSpec Model.BmtreePath Model.BmtreeIndex Model.BmtreeAllPaths.
Import ListNotations.
Open Scope string_scope.
Open Scope Z_scope.

Definition c04_h (T : Z) : nat := Z.to_nat (Height T).
Definition c04_T_ok (T : Z) : bool := (1 <=? T) && (T <? 2 ^ 31).
Definition c04_u64 (x : Z) : bool := (0 <=? x) && (x <? 2 ^ 64).

Definition ops_C04 : list opdef := [
  (* AllPaths(T, from, to): the returned slice *)
  {| op_name := "bmtree.AllPaths";
     op_run := fun a => match a with
       | [T; f; t] => match as_z T, as_z f, as_z t with
           | Some T, Some f, Some t =>
               if c04_T_ok T && c04_u64 f && c04_u64 t then
                 match AllPaths T f t with Some l => vzs l | None => VPanic end
               else VBad
           | _, _, _ => VBad end
       | _ => VBad end;
     op_spec := fun_spec (fun a => match a with
       | [T; f; t] => match as_z T, as_z f, as_z t with
           | Some T, Some f, Some t => vzs (check_allpaths T (c04_h T) f t)
           | _, _, _ => VBad end
       | _ => VBad end) |};
  (* Decode(T, bm): the returned slice *)
  {| op_name := "bmtree.Decode";
     op_run := fun a => match a with
       | [T; bm] => match as_z T, as_zs bm with
           | Some T, Some bm =>
               if c04_T_ok T && words_okb bm then
                 match Decode T bm with Some l => vzs l | None => VPanic end
               else VBad
           | _, _ => VBad end
       | _ => VBad end;
     op_spec := fun_spec (fun a => match a with
       | [T; bm] => match as_z T, as_zs bm with
           | Some T, Some bm => vzs (spec_decode T (c04_h T) bm)
           | _, _ => VBad end
       | _ => VBad end) |}
].
