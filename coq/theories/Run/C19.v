(** Protocol operation for C19 (see Lib/Val.v, harness/c19.go).

    [c19.Batch]  args = [T; R; words; bitmapSize; keys; calls],  calls = [[fid; p1; p2; p3; ref]; ...]
    The Go side builds ONE set of shared inputs, runs the whole batch from T goroutines (each R times, each in
    its own order) and reports  [threads; words afterwards; keys afterwards; derived inputs unchanged;
    exported tables unchanged]  where [threads] has one result list (in call order) per goroutine.
    [ref] is the result of the same call made alone on a private copy of the inputs before the concurrent
    run - "its results when run alone on the initial memory" of Spec/Concurrency.v.

    Model: every call is a read-only operation on the shared memory, so by [schedule_independent] every
    goroutine obtains exactly the refs under every schedule and nothing changes.
    Specification (naive): every goroutine's list IS the list of refs; the inputs are returned unchanged;
    both flags are 1. *)
From Coq Require Import ZArith List Bool String.
From Low Require Import Lib.Val Spec.Concurrency.
Import ListNotations.
Open Scope string_scope.
Open Scope Z_scope.

Definition c19_ref (c : val) : option val :=
  match c with
  | VL [VZ _; VZ _; VZ _; VZ _; ref] => Some ref
  | _ => None
  end.

Definition c19_refs (calls : list val) : option (list val) := opt_all (map c19_ref calls).

(** the model: the shared memory is (words, keys); every call is the pure operation that returns its ref;
    T identical threads are run to completion sequentially (any complete schedule gives the same, by
    [complete_schedule_sequential]) *)
Definition c19_pool (t : nat) (refs : list val) : list (thread (val * val) val) :=
  repeat (map (fun r => pure_op (fun _ : val * val => r)) refs) t.

Definition c19_model (t : Z) (words keys : val) (refs : list val) : val :=
  let '(m, rss) := run_seq (c19_pool (Z.to_nat t) refs) (words, keys) in
  VL [VL (map VL rss); fst m; snd m; VZ 1; VZ 1].

Definition c19_in_domain (t r : Z) (words keys calls : list val) : bool :=
  (1 <=? t) && (t <=? 64) && (1 <=? r) && (r <=? 8) &&
  (1 <=? Z.of_nat (List.length words)) && (2 <=? Z.of_nat (List.length keys)) && (1 <=? Z.of_nat (List.length calls)).

Definition c19_run (a : list val) : val :=
  match a with
  | [VZ t; VZ r; VL words; VZ tsize; VL keys; VL calls] =>
      match c19_refs calls with
      | Some refs => if c19_in_domain t r words keys calls then c19_model t (VL words) (VL keys) refs else VBad
      | None => VBad
      end
  | _ => VBad
  end.

Definition c19_spec (a : list val) (obs : val) : bool :=
  match a, obs with
  | [VZ t; VZ r; VL words; VZ tsize; VL keys; VL calls],
    VL [VL threads; words'; keys'; VZ derived_ok; VZ tables_ok] =>
      match c19_refs calls with
      | Some refs =>
          (Z.of_nat (List.length threads) =? t) &&
          forallb (fun th => val_eqb th (VL refs)) threads &&   (* concurrent = alone, for every goroutine *)
          val_eqb words' (VL words) && val_eqb keys' (VL keys) && (* the arguments are unchanged *)
          (derived_ok =? 1) && (tables_ok =? 1)                   (* so are the shared indexes and the tables *)
      | None => false
      end
  | _, _ => false
  end.

(** [c19.BigKeys]  args = [T; n; start; stride; ref]: n counter keys shared by T goroutines, each computing the
    digest of FirstDiffBits / CountPrefixes over all of them; [ref] = the digest computed alone under GOMAXPROCS(1).
    Observation: [per-goroutine digests; keys unchanged].  Same model and specification as above: every goroutine
    obtains the reference, nothing changes - whatever the number of CPUs the runtime uses. *)
Definition c19_big_dom (t n : Z) : bool := (1 <=? t) && (t <=? 64) && (2 <=? n) && (n <=? 2097152).

Definition c19_big_run (a : list val) : val :=
  match a with
  | [VZ t; VZ n; VZ start; VZ stride; ref] =>
      if c19_big_dom t n
      then let '(_, rss) := run_seq (c19_pool (Z.to_nat t) [ref]) (VZ start, VZ stride) in
           VL [VL (map (fun rs => match rs with [r] => r | _ => VBad end) rss); VZ 1]
      else VBad
  | _ => VBad
  end.

Definition c19_big_spec (a : list val) (obs : val) : bool :=
  match a, obs with
  | [VZ t; VZ n; VZ start; VZ stride; ref], VL [VL threads; VZ keys_ok] =>
      (Z.of_nat (List.length threads) =? t) && forallb (fun th => val_eqb th ref) threads && (keys_ok =? 1)
  | _, _ => false
  end.

Definition ops_C19 : list opdef := [
  {| op_name := "c19.Batch"; op_run := c19_run; op_spec := c19_spec |};
  {| op_name := "c19.BigKeys"; op_run := c19_big_run; op_spec := c19_big_spec |}
].
