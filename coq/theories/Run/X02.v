(** Protocol operations for the extra check X02 (tree.String, tree.DepthFirst), see Lib/Val.v.

    A tree travels as   node = [uid, x<id>, x<info>, leaf, [[label, node], ...]]
      leaf  = [] (not a leaf) | [[0]] nil | [[1,z]] int | [[2,x<bytes>]] string | [[3,b]] bool | [[4,[z,...]]] []int
      label = [] (nil label) | [x<text>]
    uid must be the pre-order number of the node (0 for the root).  harness/x02.go builds a Go implementation of
    tree.Tree from the same text ([rose_tree] of Spec/TreeSpec.v mirrors it).

    [tree.String]     [rootnil, tree] -> the text (bytes)
    [tree.DepthFirst] [rootnil, tree] -> the calls of the callback: [[parent uid | -1, label, node uid | -1], ...]
                                         (-1: the value was nil; with rootnil = 1 the root is presented as nil) *)
From Coq Require Import ZArith List Bool String.
From Low Require Import Lib.Val Lib.Decimal_xpk Model.Tree Spec.TreeSpec.
Import ListNotations.
Open Scope string_scope.
Open Scope Z_scope.

Definition dec_bytes (v : val) : option (list Z) :=
  match as_zs v with
  | Some l => if forallb (fun b => (0 <=? b) && (b <? 256)) l then Some l else None
  | None => None
  end.

Definition dec_leaf (v : val) : option (option lval) :=
  match v with
  | VL [] => Some None
  | VL [VL [VZ 0]] => Some (Some LNil)
  | VL [VL [VZ 1; VZ z]] => Some (Some (LInt z))
  | VL [VL [VZ 2; s]] => match dec_bytes s with Some s => Some (Some (LStr s)) | None => None end
  | VL [VL [VZ 3; VZ b]] => Some (Some (LBool (negb (b =? 0))))
  | VL [VL [VZ 4; l]] => match as_zs l with Some l => Some (Some (LInts l)) | None => None end
  | _ => None
  end.

Definition dec_label (v : val) : option (option (list Z)) :=
  match v with
  | VL [] => Some None
  | VL [s] => match dec_bytes s with Some s => Some (Some s) | None => None end
  | _ => None
  end.

Fixpoint dec_rose (v : val) : option rose :=
  match v with
  | VL [VZ uid; id; info; leaf; VL kids] =>
      match dec_bytes id, dec_bytes info, dec_leaf leaf,
            opt_all (map (fun e => match e with
                                   | VL [l; c] => match dec_label l, dec_rose c with
                                                  | Some l, Some c => Some (l, c)
                                                  | _, _ => None end
                                   | _ => None end) kids) with
      | Some id, Some info, Some leaf, Some kids => Some (Rose uid id info leaf kids)
      | _, _, _, _ => None
      end
  | _ => None
  end.

Fixpoint zs_eqb (a b : list Z) : bool :=
  match a, b with
  | [], [] => true
  | x :: a', y :: b' => (x =? y) && zs_eqb a' b'
  | _, _ => false
  end.

(** in-domain: uids are the pre-order numbers, nil labels as the harness can build them *)
Definition dec_case (a : list val) : option (bool * rose) :=
  match a with
  | [VZ rn; tr] =>
      match dec_rose tr with
      | Some r =>
          if rose_ok r && zs_eqb (map r_uid (preorder r)) (map Z.of_nat (seq 0 (size r))) && ((rn =? 0) || (rn =? 1))
          then Some (negb (rn =? 0), r) else None
      | None => None
      end
  | _ => None
  end.

Definition vlabel (l : option (list Z)) : val := match l with Some s => VL [vzs s] | None => VL [] end.

Definition out_calls (cs : list (call (node:=rose) (label:=edge))) : val :=
  VL (map (fun c : call => let '(p, l, n) := c in
             VL [VZ (match p with Some x => r_uid x | None => -1 end);
                 vlabel (match l with Some e => fst e | None => None end);
                 VZ (match n with Some x => r_uid x | None => -1 end)]) cs).

Definition out_visits (rootnil : bool) (root : rose) (vs : list (option rose * option (list Z) * rose)) : val :=
  let show := fun x : rose => if rootnil && (r_uid x =? r_uid root) then -1 else r_uid x in
  VL (map (fun v => let '(p, l, n) := v in
             VL [VZ (match p with Some x => show x | None => -1 end); vlabel l; VZ (show n)]) vs).

Definition ops_X02 : list opdef := [
  {| op_name := "tree.String";
     op_run := fun a => match dec_case a with
       | Some (rn, r) => match String (rose_tree rn r) (S (height r)) with Some s => vzs s | None => VPanic end
       | None => VBad end;
     op_spec := fun_spec (fun a => match dec_case a with
       | Some (_, r) => vzs (spec_String r)
       | None => VBad end) |};
  {| op_name := "tree.DepthFirst";
     op_run := fun a => match dec_case a with
       | Some (rn, r) => match DepthFirst (rose_tree rn r) (S (height r)) with Some cs => out_calls cs | None => VPanic end
       | None => VBad end;
     op_spec := fun_spec (fun a => match dec_case a with
       | Some (rn, r) => out_visits rn r (spec_visits None None r)
       | None => VBad end) |}
].
