(** Protocol operations of the C10 widening (appended to [ops_C10] in Run/C10.v):
    NewPath on raw arguments, the accessors on raw words, rebuilding a word from
    its fields, non-canonical search bits, and the family relations on words. *)
From Coq Require Import ZArith List Bool String.
From Low Require Import Lib.MachInt Lib.Bits Lib.BitSeq Lib.Lex Lib.Bytes Lib.Val
  Spec.Bmtree Spec.PathSpec Spec.ContractSpec Spec.PathWideSpec
  Model.BmtreePath Model.BmtreePathStr Model.BmtreePathWide.
Import ListNotations.
Open Scope string_scope.
Open Scope Z_scope.

Definition c10w_node (v : val) : option node :=
  match as_zs v with
  | Some l => if forallb (fun z => (z =? 0) || (z =? 1)) l then Some (map (fun z => z =? 1) l) else None
  | None => None
  end.

Definition c10w_u64 (z : Z) : bool := (0 <=? z) && (z <? 2 ^ 64).
Definition c10w_i32 (z : Z) : bool := (- 2 ^ 31 <=? z) && (z <? 2 ^ 31).
Definition c10w_dom (h : Z) (q : node) : bool := (0 <=? h) && (h <=? 32) && (zlen q <=? h).

(** the word of node q at height h, through the total model of NewPath *)
Definition c10w_word (h : Z) (q : node) : option Z := NewPath_full (valL (Z.to_nat h) q) (zlen q) h.

Definition c10w_optz (o : option Z) : val := match o with Some z => VZ z | None => VL [] end.
Definition c10w_as_optz (v : val) : option (option Z) :=
  match v with VZ z => Some (Some z) | VL [] => Some None | _ => None end.

Definition c10w_family (h : Z) (q r : node) : option val :=
  match c10w_word h q, c10w_word h r with
  | Some wq, Some wr =>
      let child b := if zlen q <? h then c10w_word h (q ++ [b])%list else None in
      let nx := match next_out q with Some n => c10w_word h n | None => None end in
      Some (VL [VZ wq; c10w_optz (child false); c10w_optz (child true); c10w_optz nx; VZ wr])
  | _, _ => None
  end.

(** sessions *)
Definition c10w_hq (v : val) : option (Z * node) :=
  match v with
  | VL [VZ h; q] => match c10w_node q with Some q => if c10w_dom h q then Some (h, q) else None | None => None end
  | _ => None
  end.
Definition c10w_hqs (v : val) : option (list (Z * node)) :=
  match v with VL l => opt_all (map c10w_hq l) | _ => None end.
Definition c10w_str_of (hq : Z * node) : option (list Z) :=
  match c10w_word (fst hq) (snd hq) with Some w => Some (PathStr w) | None => None end.

Definition c10w_seg (v : val) : option (Z * Z * Z * Z) :=
  match v with
  | VL [VZ h; VZ l; VZ start; VZ count] =>
      if (0 <=? h) && (h <=? 32) && (1 <=? l) && (l <=? h) && (0 <=? start) && (0 <=? count) &&
         (start + count <=? 2 ^ l) && (count <=? 300000)
      then Some (h, l, start, count) else None
  | _ => None
  end.
Definition c10w_segs (v : val) : option (list (Z * Z * Z * Z)) :=
  match v with VL l => opt_all (map c10w_seg l) | _ => None end.
(** the texts of the prefixes xs of a segment, through the total model of NewPath (prefix x left-aligned in h bits) *)
Definition c10w_strs (h l : Z) (xs : list Z) : list (option (list Z)) :=
  map (fun x => match NewPath_full (x * 2 ^ (h - l)) l h with
                | Some w => Some (PathStr w) | None => None end) xs.
Definition c10w_seg_strs (stride : Z) (s : Z * Z * Z * Z) : list (option (list Z)) :=
  match s with (h, l, start, count) => c10w_strs h l (seg_xs start count stride) end.
Definition c10w_first_strs (segs : list (Z * Z * Z * Z)) (K : Z) : list (option (list Z)) :=
  match segs with
  | [] => []
  | (h, l, start, count) :: _ => c10w_strs h l (seg_xs start (Z.min K count) 1)
  end.
Definition c10w_bulk (segs : list (Z * Z * Z * Z)) (K stride : Z) : option (Z * list (list Z)) :=
  match opt_all (flat_map (c10w_seg_strs stride) segs), opt_all (c10w_first_strs segs K) with
  | Some ss, Some fs => Some (digest ss, fs)
  | _, _ => None
  end.
Definition c10w_pack_bulk (r : Z * list (list Z)) : val := VL [VZ (fst r); VL (map vzs (snd r))].

Definition ops_C10_wide : list opdef := [
  {| op_name := "bmtree.NewPath/raw";
     op_run := fun a => match a with
       | [VZ sb; VZ l; VZ h] =>
           if c10w_u64 sb && c10w_i32 l && c10w_i32 h then
             match NewPath_full sb l h with Some w => VZ w | None => VPanic end
           else VBad
       | _ => VBad end;
     op_spec := fun_spec (fun a => match a with
       | [VZ sb; VZ l; VZ h] => match newpath_spec sb l h with Some w => VZ w | None => VPanic end
       | _ => VBad end) |};
  (* observation: [PathLen, PathHeight, PathBits, PathMask, PathStr] of an arbitrary uint64 *)
  {| op_name := "bmtree.PathFields/raw";
     op_run := fun a => match a with
       | [VZ w] =>
           if c10w_u64 w then VL [VZ (PathLen w); VZ (PathHeight w); VZ (PathBits w); VZ (PathMask w); vzs (PathStr w)]
           else VBad
       | _ => VBad end;
     op_spec := fun a obs => match a, obs with
       | [VZ w], VL [VZ pl; VZ ph; VZ pb; VZ pm; ps] =>
           match as_zs ps with Some ps => rawfields_ok w pl ph pb pm ps | None => false end
       | _, _ => false end |};
  (* observation: [NewPath(PathBits w, PathLen w, PathHeight w), ^mask & bits, PathHeight w] *)
  {| op_name := "bmtree.NewPath/rebuild";
     op_run := fun a => match a with
       | [VZ w] =>
           if c10w_u64 w then
             match rebuild w with Some r => VL [VZ r; VZ (stray w); VZ (PathHeight w)] | None => VPanic end
           else VBad
       | _ => VBad end;
     op_spec := fun a obs => match a, obs with
       | [VZ w], VL [VZ r; VZ s; VZ h] => rebuild_ok w r s h
       | _, _ => false end |};
  (* observation: [word, PathLen, PathHeight, PathStr] of NewPath(prefix|extra, |q|, h) *)
  {| op_name := "bmtree.NewPath/noncanon";
     op_run := fun a => match a with
       | [VZ h; q; VZ extra] => match c10w_node q with
           | Some q =>
               if c10w_dom h q && (0 <=? extra) && (extra <? 2 ^ (h - zlen q)) then
                 match NewPath_full (valL (Z.to_nat h) q + extra) (zlen q) h with
                 | Some w => VL [VZ w; VZ (PathLen w); VZ (PathHeight w); vzs (PathStr w)]
                 | None => VPanic end
               else VBad
           | None => VBad end
       | _ => VBad end;
     op_spec := fun a obs => match a, obs with
       | [VZ h; q; VZ extra], VL [VZ w; VZ pl; VZ ph; ps] =>
           match c10w_node q, as_zs ps with
           | Some q, Some ps => noncanon_ok h q extra w pl ph ps
           | _, _ => false end
       | _, _ => false end |};
  (* observation: words of q, q0, q1, next_out q, r *)
  {| op_name := "bmtree.NewPath/family";
     op_run := fun a => match a with
       | [VZ h; q; r] => match c10w_node q, c10w_node r with
           | Some q, Some r =>
               if c10w_dom h q && c10w_dom h r then
                 match c10w_family h q r with Some v => v | None => VPanic end
               else VBad
           | _, _ => VBad end
       | _ => VBad end;
     op_spec := fun a obs => match a, obs with
       | [VZ h; q; r], VL [VZ wq; c0; c1; nx; VZ wr] =>
           match c10w_node q, c10w_node r, c10w_as_optz c0, c10w_as_optz c1, c10w_as_optz nx with
           | Some q, Some r, Some c0, Some c1, Some nx => family_ok h q r wq c0 c1 nx wr
           | _, _, _, _, _ => false end
       | _, _ => false end |};
  (* observation: [sign of strings.Compare(PathStr w1, PathStr w2), PathStr w1, PathStr w2] *)
  {| op_name := "bmtree.PathStr/order";
     op_run := fun a => match a with
       | [VZ h; q1; q2] => match c10w_node q1, c10w_node q2 with
           | Some q1, Some q2 =>
               if c10w_dom h q1 && c10w_dom h q2 then
                 match c10w_word h q1, c10w_word h q2 with
                 | Some w1, Some w2 =>
                     VL [VZ (cmp_sign (bytes_cmp (PathStr w1) (PathStr w2))); vzs (PathStr w1); vzs (PathStr w2)]
                 | _, _ => VPanic end
               else VBad
           | _, _ => VBad end
       | _ => VBad end;
     op_spec := fun a obs => match a, obs with
       | [VZ h; q1; q2], VL [VZ sg; s1; s2] =>
           match c10w_node q1, c10w_node q2, as_zs s1, as_zs s2 with
           | Some q1, Some q2, Some s1, Some s2 => strorder_ok q1 q2 sg s1 s2
           | _, _, _, _ => false end
       | _, _ => false end |};
  (* observation: [w, NewPath(ParseUint(PathStr w, 2) << (h - len), len, h)] *)
  {| op_name := "bmtree.PathStr/parse";
     op_run := fun a => match a with
       | [VZ h; q] => match c10w_node q with
           | Some q =>
               if c10w_dom h q then
                 match c10w_word h q with
                 | Some w =>
                     let s := PathStr w in
                     match NewPath_full (shl64 (parse_bin s) (h - zlen s)) (zlen s) h with
                     | Some w2 => VL [VZ w; VZ w2]
                     | None => VPanic end
                 | None => VPanic end
               else VBad
           | None => VBad end
       | _ => VBad end;
     op_spec := fun a obs => match a, obs with
       | [VZ h; q], VL [VZ w; VZ w2] =>
           match c10w_node q with Some q => strparse_ok h q w w2 | None => false end
       | _, _ => false end |};
  (* a session: PathStr of every (h, node) of the list, consecutively in one executor; observed: the texts *)
  {| op_name := "bmtree.PathStr/seq";
     op_run := fun a => match a with
       | [l] => match c10w_hqs l with
           | Some l => match opt_all (map c10w_str_of l) with
               | Some ss => VL (map vzs ss) | None => VPanic end
           | None => VBad end
       | _ => VBad end;
     op_spec := fun_spec (fun a => match a with
       | [l] => match c10w_hqs l with
           | Some l => VL (map (fun hq => vzs (node_str (snd hq))) l)
           | None => VBad end
       | _ => VBad end) |};
  (* a bulk session (compact): every prefix of the segments (h, l, start, count) rendered in order, then the first K again;
     observed: [digest of the texts of every stride-th prefix of each segment, texts of the first K on the second pass] *)
  {| op_name := "bmtree.PathStr/bulk";
     op_run := fun a => match a with
       | [segs; VZ K; VZ stride] => match c10w_segs segs with
           | Some segs => if (0 <=? K) && (K <=? 64) && (1 <=? stride) then
               match c10w_bulk segs K stride with Some r => c10w_pack_bulk r | None => VPanic end
               else VBad
           | None => VBad end
       | _ => VBad end;
     op_spec := fun_spec (fun a => match a with
       | [segs; VZ K; VZ stride] => match c10w_segs segs with
           | Some segs => c10w_pack_bulk (bulk_spec segs K stride)
           | None => VBad end
       | _ => VBad end) |};
  (* G goroutines render the paths of the list in tight loops; observed: per path, the sorted set of
     DISTINCT texts any call returned (a pure function: exactly one) *)
  {| op_name := "bmtree.PathStr/concurrent";
     op_run := fun a => match a with
       | [l; VZ g; VZ iters] => match c10w_hqs l with
           | Some l => match opt_all (map c10w_str_of l) with
               | Some ss => VL (map (fun s => VL [vzs s]) ss) | None => VPanic end
           | None => VBad end
       | _ => VBad end;
     op_spec := fun_spec (fun a => match a with
       | [l; VZ g; VZ iters] => match c10w_hqs l with
           | Some l => VL (map (fun hq => VL [vzs (node_str (snd hq))]) l)
           | None => VBad end
       | _ => VBad end) |}
].
