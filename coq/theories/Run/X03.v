(** Protocol operations for the extra check X03 (typehelper.ToSlice), see Lib/Val.v.
    (Operation names carry the suffix /values: the C20 widening owns the plain name typehelper.ToSlice.)

    Encoding of a Go value (harness/x03.go BUILDS the Go value from the same text with reflect and renders
    results back into it):
      value  [0] nil interface | [1,k,n] scalar of reflect.Kind k in 1..11, 13, 14 (floats: n = the IEEE bit pattern) | [2,x<bytes>] string
             | [3,T,flags,[v,...]] slice of element type T (flags bit 0: nil slice, bit 1: named type)
             | [4,T,[v,...]] array | [5,v] pointer to v | [6,T] nil pointer | [7,kind] map/struct/chan/func
      type   [0] interface{} | [1,k] | [2] string | [3,T] slice | [4,T,n] array | [5,T] pointer

    [typehelper.ToSlice/values]        [v]  ->  P | [1, [elements]]   (1: the result is a non-nil slice)
    [typehelper.ToSlice/fresh]  [v]  ->  P | [[elements of a second call], v]  observed AFTER every slot of the
                                       first call's result was overwritten: results are fresh slices, the
                                       argument is not written to. *)
From Coq Require Import ZArith List Bool String.
From Low Require Import Lib.Val Model.ToSliceValues Spec.ToSliceValuesSpec.
Import ListNotations.
Open Scope string_scope.
Open Scope Z_scope.

Fixpoint dec_ty (v : val) : option gty :=
  match v with
  | VL [VZ 0] => Some TIface
  | VL [VZ 1; VZ k] => if scalar_kind k then Some (TScalar k) else None
  | VL [VZ 2] => Some TString
  | VL [VZ 3; t] => match dec_ty t with Some t => Some (TSlice t) | None => None end
  | VL [VZ 4; t; VZ n] => match dec_ty t with Some t => if 0 <=? n then Some (TArray t n) else None | None => None end
  | VL [VZ 5; t] => match dec_ty t with Some t => Some (TPtr t) | None => None end
  | _ => None
  end.

Fixpoint dec_val (v : val) : option gval :=
  match v with
  | VL [VZ 0] => Some GNil
  | VL [VZ 1; VZ k; VZ n] => if scalar_kind k then Some (GScalar k n) else None
  | VL [VZ 2; VL bs] => match opt_all (map as_z bs) with Some bs => Some (GString bs) | None => None end
  | VL [VZ 3; t; VZ fl; VL el] =>
      match dec_ty t, opt_all (map dec_val el) with
      | Some t, Some el => if (0 <=? fl) && (fl <=? 3) then Some (GSlice t fl el) else None
      | _, _ => None end
  | VL [VZ 4; t; VL el] =>
      match dec_ty t, opt_all (map dec_val el) with
      | Some t, Some el => Some (GArray t el)
      | _, _ => None end
  | VL [VZ 5; x] => match dec_val x with Some x => Some (GPtr x) | None => None end
  | VL [VZ 6; t] => match dec_ty t with Some t => Some (GNilPtr t) | None => None end
  | VL [VZ 7; VZ tag] => Some (GOther tag)
  | _ => None
  end.

Fixpoint enc_ty (t : gty) : val :=
  match t with
  | TIface => VL [VZ 0]
  | TScalar k => VL [VZ 1; VZ k]
  | TString => VL [VZ 2]
  | TSlice t => VL [VZ 3; enc_ty t]
  | TArray t n => VL [VZ 4; enc_ty t; VZ n]
  | TPtr t => VL [VZ 5; enc_ty t]
  end.

Fixpoint enc_val (v : gval) : val :=
  match v with
  | GNil => VL [VZ 0]
  | GScalar k n => VL [VZ 1; VZ k; VZ n]
  | GString s => VL [VZ 2; vzs s]
  | GSlice t fl el => VL [VZ 3; enc_ty t; VZ fl; VL (map enc_val el)]
  | GArray t el => VL [VZ 4; enc_ty t; VL (map enc_val el)]
  | GPtr x => VL [VZ 5; enc_val x]
  | GNilPtr t => VL [VZ 6; enc_ty t]
  | GOther tag => VL [VZ 7; VZ tag]
  end.

(** in-domain arguments: well-formed value trees (the harness can only build those) *)
Definition dec_arg (a : list val) : option gval :=
  match a with
  | [v] => match dec_val v with Some g => if wf g then Some g else None | None => None end
  | _ => None
  end.

Definition out_plain (r : option (list gval)) : val :=
  match r with Some l => VL [VZ 1; VL (map enc_val l)] | None => VPanic end.
Definition out_fresh (g : gval) (r : option (list gval)) : val :=
  match r with Some l => VL [VL (map enc_val l); enc_val g] | None => VPanic end.

Definition ops_X03 : list opdef := [
  {| op_name := "typehelper.ToSlice/values";
     op_run := fun a => match dec_arg a with Some g => out_plain (ToSlice g) | None => VBad end;
     op_spec := fun_spec (fun a => match dec_arg a with Some g => out_plain (spec_ToSlice g) | None => VBad end) |};
  {| op_name := "typehelper.ToSlice/fresh";
     op_run := fun a => match dec_arg a with Some g => out_fresh g (ToSlice g) | None => VBad end;
     op_spec := fun_spec (fun a => match dec_arg a with Some g => out_fresh g (spec_ToSlice g) | None => VBad end) |}
].
