(** Protocol operations for C14 (see Lib/Val.v).
    [bitmap.Join]  [vs; w]        -> [words; unchanged]   (unchanged = 1 iff the input slice is as before the call)
    [bitmap.Getw]  [vs; w]        -> [Getw(Join(vs,w), i, w) for every i < len(vs)]
    [bitmap.Slice] [ws; from; to] -> [words; unchanged]
    widening:
    [bitmap.Masks]      [j]          -> [Mask[j]; RMask[j]; MaskUpto[j]; RMaskUpto[j]; Bit[j]; RBit[j]] (P per entry)
    [bitmap.Getw/any]   [bm; i; w]   -> Getw(bm, i, w) on any bitmap and any int32 index (P = panic);
                                        judged by the specification only while i*w fits int32
    [bitmap.Join/split] [bm; w]      -> Join([Getw(bm, i, w) for i < 64*len(bm)/w], w); must be bm again
    [bitmap.Slice/ToArray] [ws; from; to] -> ToArray(Slice(ws, from, to))
    [bitmap.Slice/Slice] [ws; a; b; c; d] -> Slice(Slice(ws, a, b), c, d); must be the slice [a+c, a+d) of ws
    [bitmap.Slice/Rank64] [ws; a; b; trailing; j] -> Rank64(r, IndexRank64(r, trailing), j) with r = Slice(ws, a, b): [count, bit]
    [bitmap.Slice/NextOne] [ws; a; b; j] -> NextOne(r, j, b-a);  [bitmap.Slice/PrevOne] likewise
    [bitmap.Join/Slice] [vs; w; k; m] -> Slice(Join(vs, w), k*w, m*w); must be Join of elements k..m-1
    [bitmap.JoinSlice/scribble] [steps] -> one session: step [0; vs; w] = Join(vs, w), step [1; ws; from; to] =
                                           Slice(ws, from, to); the caller OVERWRITES every returned bitmap with junk after
                                           rendering it (it owns the result), so a result that shares memory with a later
                                           result (a package-level zero page, a cached buffer) shows up in the later step;
                                           observed = the list of results; every step is judged like the single call
    [bitmap.Fmt] [kind; is_slice; vals] -> the string Fmt returns (byte list), P = panic; kind 0..7 = int8, uint8,
                                           int16, uint16, int32, uint32, int64, uint64, 8 = string (not an integer) *)
From Coq Require Import ZArith List Bool String.
From Low Require Import Lib.Bits Lib.BitSeq Lib.Val Model.BitmapJoin Spec.JoinSpec
  Model.BitmapMask Spec.MaskSpec Model.BitmapGetw32 Spec.GetwSpec
  Model.BitmapSliceArray Spec.SliceArraySpec Model.BitmapFmt Spec.FmtSpec Spec.SliceComposeSpec.
Import ListNotations.
Open Scope string_scope.
Open Scope Z_scope.

Definition vopts14 (l : list (option Z)) : val :=
  match opt_all l with Some r => vzs r | None => VPanic end.

Definition indices {A} (l : list A) : list Z := map Z.of_nat (seq 0 (List.length l)).

(** the model leaves its argument unchanged by construction (values are immutable): flag 1 *)
Definition with_flag (o : option (list Z)) : val :=
  match o with Some r => VL [vzs r; VZ 1] | None => VPanic end.

Definition vopt_z (o : option Z) : val := match o with Some z => VZ z | None => VPanic end.
Definition vopt_zs (o : option (list Z)) : val := match o with Some r => vzs r | None => VPanic end.

(** one step of a scribble session: the model is pure, so a step is just the single call *)
Definition scr_run (st : val) : val :=
  match st with
  | VL [VZ 0; vs; VZ w] =>
      match as_zs vs with
      | Some vs => if words_okb vs && width_okb w then vopt_zs (Join vs w) else VBad
      | None => VBad end
  | VL [VZ 1; ws; VZ from; VZ to] =>
      match as_zs ws with
      | Some ws => if words_okb ws && slice_dom ws from to then vopt_zs (Slice ws from to) else VBad
      | None => VBad end
  | _ => VBad
  end.

Definition scr_ok (st obs : val) : bool :=
  match st, as_zs obs with
  | VL [VZ 0; vs; VZ w], Some r =>
      match as_zs vs with Some vs => spec_Join_ok vs w r | None => false end
  | VL [VZ 1; ws; VZ from; VZ to], Some r =>
      match as_zs ws with Some ws => spec_Slice_ok ws from to r | None => false end
  | _, _ => false
  end.

Definition is_vbad (v : val) : bool := match v with VBad => true | _ => false end.

Fixpoint all2 (f : val -> val -> bool) (l m : list val) : bool :=
  match l, m with
  | [], [] => true
  | x :: l', y :: m' => f x y && all2 f l' m'
  | _, _ => false
  end.

Definition ops_C14 : list opdef := [
  {| op_name := "bitmap.Join";
     op_run := fun a => match a with
       | [vs; w] => match as_zs vs, as_z w with
           | Some vs, Some w => if words_okb vs && width_okb w then with_flag (Join vs w) else VBad
           | _, _ => VBad end
       | _ => VBad end;
     op_spec := fun a obs => match a with
       | [vs; w] => match as_zs vs, as_z w, obs with
           | Some vs, Some w, VL [r; VZ 1] =>
               match as_zs r with Some r => spec_Join_ok vs w r | None => false end
           | _, _, _ => false end
       | _ => false end |};
  {| op_name := "bitmap.Getw";
     op_run := fun a => match a with
       | [vs; w] => match as_zs vs, as_z w with
           | Some vs, Some w =>
               if words_okb vs && width_okb w then
                 match Join vs w with
                 | Some r => vopts14 (map (fun i => Getw r i w) (indices vs))
                 | None => VPanic end
               else VBad
           | _, _ => VBad end
       | _ => VBad end;
     op_spec := fun_spec (fun a => match a with
       | [vs; w] => match as_zs vs, as_z w with
           | Some vs, Some w => vzs (map (fun i => spec_Getw vs w i) (indices vs))
           | _, _ => VBad end
       | _ => VBad end) |};
  {| op_name := "bitmap.Slice";
     op_run := fun a => match a with
       | [ws; from; to] => match as_zs ws, as_z from, as_z to with
           | Some ws, Some from, Some to =>
               if words_okb ws && slice_dom ws from to then with_flag (Slice ws from to) else VBad
           | _, _, _ => VBad end
       | _ => VBad end;
     op_spec := fun a obs => match a with
       | [ws; from; to] => match as_zs ws, as_z from, as_z to, obs with
           | Some ws, Some from, Some to, VL [r; VZ 1] =>
               match as_zs r with Some r => spec_Slice_ok ws from to r | None => false end
           | _, _, _, _ => false end
       | _ => false end |};
  {| op_name := "bitmap.Masks";
     op_run := fun a => match a with
       | [VZ j] => VL (map vopt_z (mask_lookups initMasks j))
       | _ => VBad end;
     op_spec := fun_spec (fun a => match a with
       | [VZ j] => VL (map vopt_z (spec_mask_lookups j))
       | _ => VBad end) |};
  {| op_name := "bitmap.Getw/any";
     op_run := fun a => match a with
       | [bm; i; w] => match as_zs bm, as_z i, as_z w with
           | Some bm, Some i, Some w =>
               if words_okb bm && width_okb w && fits_i32 i then vopt_z (Getw32 bm i w) else VBad
           | _, _, _ => VBad end
       | _ => VBad end;
     op_spec := fun a obs => match a with
       | [bm; i; w] => match as_zs bm, as_z i, as_z w with
           | Some bm, Some i, Some w =>
               if fits_i32 (i * w) then val_eqb (vopt_z (spec_Getw_any bm i w)) obs else true
           | _, _, _ => false end
       | _ => false end |};
  {| op_name := "bitmap.Join/split";
     op_run := fun a => match a with
       | [bm; w] => match as_zs bm, as_z w with
           | Some bm, Some w => if words_okb bm && width_okb w then vopt_zs (SplitJoin bm w) else VBad
           | _, _ => VBad end
       | _ => VBad end;
     op_spec := fun_spec (fun a => match a with
       | [bm; w] => bm
       | _ => VBad end) |};
  {| op_name := "bitmap.Slice/ToArray";
     op_run := fun a => match a with
       | [ws; from; to] => match as_zs ws, as_z from, as_z to with
           | Some ws, Some from, Some to =>
               if words_okb ws && slice_dom ws from to then vopt_zs (SliceToArray ws from to) else VBad
           | _, _, _ => VBad end
       | _ => VBad end;
     op_spec := fun_spec (fun a => match a with
       | [ws; from; to] => match as_zs ws, as_z from, as_z to with
           | Some ws, Some from, Some to => vzs (spec_SliceArray ws from to)
           | _, _, _ => VBad end
       | _ => VBad end) |};
  {| op_name := "bitmap.Slice/Slice";
     op_run := fun a => match a with
       | [ws; VZ a; VZ b; VZ c; VZ d] => match as_zs ws with
           | Some ws =>
               if words_okb ws && slice_dom ws a b && (0 <=? c) && (c <=? d) && (d <=? b - a)
               then vopt_zs (SliceSlice ws a b c d) else VBad
           | None => VBad end
       | _ => VBad end;
     op_spec := fun a obs => match a with
       | [ws; VZ a; VZ b; VZ c; VZ d] => match as_zs ws, as_zs obs with
           | Some ws, Some r => spec_Slice_ok ws (a + c) (a + d) r
           | _, _ => false end
       | _ => false end |};
  {| op_name := "bitmap.Slice/Rank64";
     op_run := fun a => match a with
       | [ws; VZ a; VZ b; VZ tr; VZ j] => match as_zs ws with
           | Some ws =>
               if words_okb ws && slice_dom ws a b && (0 <=? j) && (j <? b - a)
               then match SliceRank64 ws a b (negb (tr =? 0)) j with
                    | Some (n, bit) => VL [VZ n; VZ bit] | None => VPanic end
               else VBad
           | None => VBad end
       | _ => VBad end;
     op_spec := fun_spec (fun a => match a with
       | [ws; VZ a; VZ b; VZ tr; VZ j] => match as_zs ws with
           | Some ws => let (n, bit) := spec_SliceRank ws a j in VL [VZ n; VZ bit]
           | None => VBad end
       | _ => VBad end) |};
  {| op_name := "bitmap.Slice/NextOne";
     op_run := fun a => match a with
       | [ws; VZ a; VZ b; VZ j] => match as_zs ws with
           | Some ws =>
               if words_okb ws && slice_dom ws a b && (0 <=? j) && (j <? b - a)
               then vopt_z (SliceNextOne ws a b j) else VBad
           | None => VBad end
       | _ => VBad end;
     op_spec := fun_spec (fun a => match a with
       | [ws; VZ a; VZ b; VZ j] => match as_zs ws with
           | Some ws => VZ (spec_SliceNext ws a b j)
           | None => VBad end
       | _ => VBad end) |};
  {| op_name := "bitmap.Slice/PrevOne";
     op_run := fun a => match a with
       | [ws; VZ a; VZ b; VZ j] => match as_zs ws with
           | Some ws =>
               if words_okb ws && slice_dom ws a b && (0 <=? j) && (j <? b - a)
               then vopt_z (SlicePrevOne ws a b j) else VBad
           | None => VBad end
       | _ => VBad end;
     op_spec := fun_spec (fun a => match a with
       | [ws; VZ a; VZ b; VZ j] => match as_zs ws with
           | Some ws => VZ (spec_SlicePrev ws a b j)
           | None => VBad end
       | _ => VBad end) |};
  {| op_name := "bitmap.Join/Slice";
     op_run := fun a => match a with
       | [vs; VZ w; VZ k; VZ m] => match as_zs vs with
           | Some vs =>
               if words_okb vs && width_okb w && (0 <=? k) && (k <=? m) && (m <=? zlen vs)
               then vopt_zs (JoinSlice vs w k m) else VBad
           | None => VBad end
       | _ => VBad end;
     op_spec := fun a obs => match a with
       | [vs; VZ w; VZ k; VZ m] => match as_zs vs, as_zs obs with
           | Some vs, Some r => spec_Join_ok (sublist vs k m) w r
           | _, _ => false end
       | _ => false end |};
  {| op_name := "bitmap.JoinSlice/scribble";
     op_run := fun a => match a with
       | [VL steps] => let rs := map scr_run steps in if existsb is_vbad rs then VBad else VL rs
       | _ => VBad end;
     op_spec := fun a obs => match a, obs with
       | [VL steps], VL rs => all2 scr_ok steps rs
       | _, _ => false end |};
  {| op_name := "bitmap.Fmt";
     op_run := fun a => match a with
       | [VZ kind; VZ sl; vals] => match as_zs vals with
           | Some vals =>
               let is_slice := negb (sl =? 0) in
               if (0 <=? kind) && (kind <=? 8) && forallb (kind_range kind) vals
                  && (is_slice || (List.length vals =? 1)%nat)
               then vopt_zs (Fmt kind is_slice vals) else VBad
           | None => VBad end
       | _ => VBad end;
     op_spec := fun_spec (fun a => match a with
       | [VZ kind; VZ sl; vals] => match as_zs vals with
           | Some vals => vopt_zs (spec_Fmt kind (negb (sl =? 0)) vals)
           | None => VBad end
       | _ => VBad end) |}
].
