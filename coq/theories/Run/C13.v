(** Protocol operations for C13 (see Lib/Val.v).
    [bitmap.NextOne] / [bitmap.PrevOne]: one call.
    [bitmap.NextOne/ends]  [bm; i]: the results for every end in [i, 64*len]  (exhaustive sweeps).
    [bitmap.PrevOne/starts] [bm; e]: the results for every i in [0, min(e, 64*len-1)].
    The operations of the widening (sparse / held bitmaps, iteration, duality) are in Run/NextWide.v. *)
From Coq Require Import ZArith List Bool String.
From Low Require Import Lib.Bits Lib.BitSeq Lib.Val Model.BitmapNext Spec.NextSpec Run.NextWide.
Import ListNotations.
Open Scope string_scope.
Open Scope Z_scope.

Definition zrange (lo hi : Z) : list Z :=   (* lo, lo+1, ..., hi *)
  map (fun k => lo + Z.of_nat k) (seq 0 (Z.to_nat (hi + 1 - lo))).

Definition vopts (l : list (option Z)) : val :=
  match opt_all l with Some r => vzs r | None => VPanic end.

Definition ops_C13_core : list opdef := [
  {| op_name := "bitmap.NextOne";
     op_run := fun a => match a with
       | [bm; i; e] => match as_zs bm, as_z i, as_z e with
           | Some bm, Some i, Some e =>
               if words_okb bm && next_dom bm i e
               then match NextOne bm i e with Some r => VZ r | None => VPanic end
               else VBad
           | _, _, _ => VBad end
       | _ => VBad end;
     op_spec := fun_spec (fun a => match a with
       | [bm; i; e] => match as_zs bm, as_z i, as_z e with
           | Some bm, Some i, Some e => VZ (spec_NextOne bm i e) | _, _, _ => VBad end
       | _ => VBad end) |};
  {| op_name := "bitmap.PrevOne";
     op_run := fun a => match a with
       | [bm; i; e] => match as_zs bm, as_z i, as_z e with
           | Some bm, Some i, Some e =>
               if words_okb bm && prev_dom bm i e
               then match PrevOne bm i e with Some r => VZ r | None => VPanic end
               else VBad
           | _, _, _ => VBad end
       | _ => VBad end;
     op_spec := fun_spec (fun a => match a with
       | [bm; i; e] => match as_zs bm, as_z i, as_z e with
           | Some bm, Some i, Some e => VZ (spec_PrevOne bm i e) | _, _, _ => VBad end
       | _ => VBad end) |};
  {| op_name := "bitmap.NextOne/ends";
     op_run := fun a => match a with
       | [bm; i] => match as_zs bm, as_z i with
           | Some bm, Some i =>
               if words_okb bm && next_dom bm i i
               then vopts (map (fun e => NextOne bm i e) (zrange i (64 * zlen bm)))
               else VBad
           | _, _ => VBad end
       | _ => VBad end;
     op_spec := fun_spec (fun a => match a with
       | [bm; i] => match as_zs bm, as_z i with
           | Some bm, Some i => vzs (map (fun e => spec_NextOne bm i e) (zrange i (64 * zlen bm)))
           | _, _ => VBad end
       | _ => VBad end) |};
  {| op_name := "bitmap.PrevOne/starts";
     op_run := fun a => match a with
       | [bm; e] => match as_zs bm, as_z e with
           | Some bm, Some e =>
               if words_okb bm && (1 <=? e) && (e <=? 64 * zlen bm)
               then vopts (map (fun i => PrevOne bm i e) (zrange 0 (Z.min e (64 * zlen bm - 1))))
               else VBad
           | _, _ => VBad end
       | _ => VBad end;
     op_spec := fun_spec (fun a => match a with
       | [bm; e] => match as_zs bm, as_z e with
           | Some bm, Some e => vzs (map (fun i => spec_PrevOne bm i e) (zrange 0 (Z.min e (64 * zlen bm - 1))))
           | _, _ => VBad end
       | _ => VBad end) |}
].

(** the core operations and those of the widening (Run/NextWide.v) *)
Definition ops_C13 : list opdef := (ops_C13_core ++ ops_C13_wide)%list.
