(** Protocol operations for C07 (see Lib/Val.v, Run/PbcmplOps.v). *)
From Coq Require Import ZArith List Bool String.
From Low Require Import Lib.BitSeq Lib.Bytes Lib.Val Model.Pbcmpl Model.PbcmplWalk Model.PbcmplEncErr Spec.PbcmplSpec Spec.PbcmplWalkSpec
  Run.PbcmplOps Run.PbcmplWalkOps Run.PbcmplSessionOps.
Import ListNotations.
Open Scope string_scope.
Open Scope Z_scope.

Definition ops_C07 : list opdef := [
  (* [kind, stream bytes, chunk pattern, terminal kind (0 EOF, 1 injected error), terminal with last chunk]
     -> [[[n, ver, errclass, payload, consumed] per Unmarshal call until the first error], bytes left] *)
  {| op_name := "pbcmpl.Unmarshal/stream";
     op_run := fun a => match a with
       | [k; s; pat; tk; wl] => match as_z k, as_zs s, as_zs pat, as_z tk, as_bool wl with
           | Some k, Some s, Some pat, Some tk, Some wl =>
               if kind_ok k && bytes_okb s && all_pos pat then v_stream_model k (chunks_of pat s, term_of tk wl)
               else VBad
           | _, _, _, _, _ => VBad end
       | _ => VBad end;
     (* the property tolerates io.EOF or io.ErrUnexpectedEOF for a cut exactly after the header *)
     op_spec := fun a obs => match a with
       | [k; s; pat; tk; wl] => match as_z k, as_zs s, as_z tk, as_bool wl with
           | Some k, Some s, Some tk, Some wl =>
               val_eqb (v_stream_spec k EEOF s (term_of tk wl)) obs
               || val_eqb (v_stream_spec k EUnexpectedEOF s (term_of tk wl)) obs
           | _, _, _, _ => false end
       | _ => false end |};
  (* [stream bytes, chunk pattern, terminal kind, with last] -> [n, errclass, ver, hsize, bsize] *)
  {| op_name := "pbcmpl.ReadHeader/bytes";
     op_run := fun a => match a with
       | [s; pat; tk; wl] => match as_zs s, as_zs pat, as_z tk, as_bool wl with
           | Some s, Some pat, Some tk, Some wl =>
               if bytes_okb s && all_pos pat then v_readheader_model (chunks_of pat s, term_of tk wl) else VBad
           | _, _, _, _ => VBad end
       | _ => VBad end;
     op_spec := fun_spec (fun a => match a with
       | [s; pat; tk; wl] => match as_zs s, as_z tk, as_bool wl with
           | Some s, Some tk, Some wl => v_readheader (spec_ReadHeader s (term_of tk wl))
           | _, _, _ => VBad end
       | _ => VBad end) |};
  (* [kind, [hasver, ver, payload], [[accept, fail], ...]] -> [n, errclass, bytes that reached the writer, Size, HeaderSize]
     (P when the version is longer than 16 bytes) *)
  {| op_name := "pbcmpl.Marshal/faulty";
     op_run := fun a => match a with
       | [k; m; sc] => match as_z k, as_msg m, as_script sc with
           | Some k, Some m, Some sc =>
               if kind_ok k && script_ok sc [32; zlen (k_enc k (snd m))] then v_marshal_model k sc m else VBad
           | _, _, _ => VBad end
       | _ => VBad end;
     op_spec := fun_spec (fun a => match a with
       | [k; m; sc] => match as_z k, as_msg m, as_script sc with
           | Some k, Some m, Some sc => v_marshal_spec k sc m
           | _, _, _ => VBad end
       | _ => VBad end) |};
  (* widening: [kind, [chunk, chunk, ...], terminal kind, with last]: the reader delivers exactly these chunks,
     EMPTY ones included (a Read that returns (0, nil)); the last chunk must not be empty.  Same observation
     and same specification (on the concatenation) as pbcmpl.Unmarshal/stream *)
  {| op_name := "pbcmpl.Unmarshal/chunks";
     op_run := fun a => match a with
       | [k; cs; tk; wl] => match as_z k, as_zss cs, as_z tk, as_bool wl with
           | Some k, Some cs, Some tk, Some wl =>
               if kind_ok k && forallb bytes_okb cs && negb (is_nil (last cs [0])) then v_stream_model k (cs, term_of tk wl)
               else VBad
           | _, _, _, _ => VBad end
       | _ => VBad end;
     op_spec := fun a obs => match a with
       | [k; cs; tk; wl] => match as_z k, as_zss cs, as_z tk, as_bool wl with
           | Some k, Some cs, Some tk, Some wl =>
               val_eqb (v_stream_spec k EEOF (List.concat cs) (term_of tk wl)) obs
               || val_eqb (v_stream_spec k EUnexpectedEOF (List.concat cs) (term_of tk wl)) obs
           | _, _, _, _ => false end
       | _ => false end |};
  (* [kind, stream bytes, chunk pattern, terminal kind, bufio size]: as pbcmpl.Unmarshal/stream with the reader
     wrapped in bufio.NewReaderSize(reader, size) -> [[n, ver, errclass, payload] per call until the first error] *)
  {| op_name := "pbcmpl.Unmarshal/bufio";
     op_run := fun a => match a with
       | [k; s; pat; tk; bsz] => match as_z k, as_zs s, as_zs pat, as_z tk, as_z bsz with
           | Some k, Some s, Some pat, Some tk, Some bsz =>
               if kind_ok k && bytes_okb s && all_pos pat && (0 <=? bsz) then v_bufstream_model k (chunks_of pat s, term_of tk false)
               else VBad
           | _, _, _, _, _ => VBad end
       | _ => VBad end;
     op_spec := fun a obs => match a with
       | [k; s; pat; tk; bsz] => match as_z k, as_zs s, as_z tk with
           | Some k, Some s, Some tk =>
               val_eqb (v_bufstream_spec k EEOF s (term_of tk false)) obs
               || val_eqb (v_bufstream_spec k EUnexpectedEOF s (term_of tk false)) obs
           | _, _, _ => false end
       | _ => false end |};
  (* histories: [kind, [[[hasver, ver, payload], [[accept, fail], ...]], ...]]: several Marshal calls in ONE process,
     each into its own scripted writer -> per call what pbcmpl.Marshal/faulty reports *)
  {| op_name := "pbcmpl.Marshal/session";
     op_run := fun a => match a with
       | [k; cs] => match as_z k, as_list cs with
           | Some k, Some cs =>
               match opt_all (map as_mcall cs) with
               | Some cs =>
                   if kind_ok k && forallb (fun c => script_ok (snd c) [32; zlen (k_enc k (snd (fst c)))]) cs
                   then VL (map (fun c => v_marshal_model k (snd c) (fst c)) cs) else VBad
               | None => VBad end
           | _, _ => VBad end
       | _ => VBad end;
     op_spec := fun_spec (fun a => match a with
       | [k; cs] => match as_z k, as_list cs with
           | Some k, Some cs =>
               match opt_all (map as_mcall cs) with
               | Some cs => VL (map (fun c => v_marshal_spec k (snd c) (fst c)) cs)
               | None => VBad end
           | _, _ => VBad end
       | _ => VBad end) |};
  (* widening: [stream bytes, chunk pattern, terminal kind, with last] -> arbitrary bytes walked with
     ReadHeader + io.ReadFull: [[[n, errclass, ver, hsize, bsize, body bytes, refused] per step], left] *)
  {| op_name := "pbcmpl.Walk/bytes";
     op_run := fun a => match a with
       | [s; pat; tk; wl] => match as_zs s, as_zs pat, as_z tk, as_bool wl with
           | Some s, Some pat, Some tk, Some wl =>
               if bytes_okb s && all_pos pat then v_walk_model (chunks_of pat s, term_of tk wl) else VBad
           | _, _, _, _ => VBad end
       | _ => VBad end;
     op_spec := fun_spec (fun a => match a with
       | [s; pat; tk; wl] => match as_zs s, as_z tk, as_bool wl with
           | Some s, Some tk, Some wl => v_walk_spec s (term_of tk wl)
           | _, _, _ => VBad end
       | _ => VBad end) |};
  (* widening: [[hasver, ver, payload], [[accept, fail], ...]] with a message whose own Marshal fails
     -> [n, errclass, bytes that reached the writer, HeaderSize(msg)]; the property's words: count 0, the
     message's error, nothing written *)
  {| op_name := "pbcmpl.Marshal/encerr";
     op_run := fun a => match a with
       | [m; sc] => match as_msg m, as_script sc with
           | Some m, Some sc =>
               match Marshal_opt (fun _ : list Z => None) swrite (sc, []) (snd m) (fst m) with
               | None => VPanic
               | Some (n, ec, (_, out)) => VL [VZ n; VZ ec; vzs out; VZ (HeaderSizeOf (snd m))]
               end
           | _, _ => VBad end
       | _ => VBad end;
     op_spec := fun_spec (fun a => VL [VZ 0; VZ 7; vzs []; VZ 32]) |}
].
