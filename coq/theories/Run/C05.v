(** Protocol operations for C05 (see Lib/Val.v).

    bmtree.IndexToPath        args [h, idx]   obs [w, i]  with w = IndexToPath(h, idx) and
                              i = PathToIndex(2^(h+1)-1, w)   (the real round trip)
    bmtree.PathToIndex/inverse args [h, [b0,b1,…]]  obs [i, w] with i = PathToIndex(2^(h+1)-1, NewPath(node))
                              and w = IndexToPath(h, i)

    The specification side is the checker of Spec/IndexToPathSpec.v: the word
    is the word of a node of the full tree whose pre-order index is idx.

    Widened (Spec/IndexToPathWideSpec.v):
    bmtree.IndexToPath/fields    [h, idx]  obs [PathLen, PathHeight, PathBits, PathMask, PathStr] of IndexToPath(h, idx)
    bmtree.IndexToPath/order     [h, i, j] obs sign of comparing IndexToPath(h, i) with IndexToPath(h, j)
    bmtree.PathToIndexLoose/full [h, node] obs [i, has, IndexToPath(h, i)] with (i, has) = PathToIndexLoose(2^(h+1)-1, NewPath(node))
    bmtree.Height/full           [h]       obs Height(2^(h+1)-1)
    bmtree.AllPaths/full         [h]       obs [AllPaths(2^(h+1)-1, 0, 1<<63), [IndexToPath(h,i) for i in 0..2^(h+1)-2]]  (h <= 14) *)
From Coq Require Import ZArith List Bool String.
From Low Require Import Lib.Bits Lib.BitSeq Lib.Lex Lib.Bytes Lib.Val
  Spec.Bmtree Spec.PathSpec Spec.IndexSpec Spec.IndexToPathSpec Spec.IndexToPathWideSpec
  Model.BmtreePath Model.BmtreePathStr Model.BmtreeIndex Model.BmtreeIndexToPath Model.BmtreeAllPaths.
Import ListNotations.
Open Scope string_scope.
Open Scope Z_scope.

Definition c05_node (v : val) : option node :=
  match as_zs v with
  | Some l => if forallb (fun z => (z =? 0) || (z =? 1)) l then Some (map (fun z => z =? 1) l) else None
  | None => None
  end.

(** domain of the property: 0 <= h <= 30, 0 <= idx < 2^(h+1)-1 *)
Definition c05_dom (h idx : Z) : bool :=
  (0 <=? h) && (h <=? 30) && (0 <=? idx) && (idx <? 2 ^ (h + 1) - 1).

Definition c05_rank (h : nat) (q : node) : Z :=
  if (h <=? enum_max)%nat then enum_rank h q else full_rank h q.

Definition op_index_to_path : opdef :=
  {| op_name := "bmtree.IndexToPath";
     op_run := fun a => match a with
       | [h; idx] => match as_z h, as_z idx with
           | Some h, Some idx =>
               if c05_dom h idx then
                 match IndexToPath h idx with
                 | Some w =>
                     match PathToIndex (2 ^ (h + 1) - 1) w with
                     | Some i => VL [VZ w; VZ i]
                     | None => VPanic end
                 | None => VPanic end
               else VBad
           | _, _ => VBad end
       | _ => VBad end;
     op_spec := fun a obs => match a, obs with
       | [h; idx], VL [VZ w; VZ i] => match as_z h, as_z idx with
           | Some h, Some idx => check_index_to_path (Z.to_nat h) idx w && (i =? idx)
           | _, _ => false end
       | _, _ => false end |}.

Definition op_inverse : opdef :=
  {| op_name := "bmtree.PathToIndex/inverse";
     op_run := fun a => match a with
       | [h; q] => match as_z h, c05_node q with
           | Some h, Some q =>
               if (0 <=? h) && (h <=? 30) && (zlen q <=? h) then
                 let w := NewPath (valL (Z.to_nat h) q) (zlen q) h in
                 match PathToIndex (2 ^ (h + 1) - 1) w with
                 | Some i =>
                     match IndexToPath h i with
                     | Some w' => VL [VZ i; VZ w']
                     | None => VPanic end
                 | None => VPanic end
               else VBad
           | _, _ => VBad end
       | _ => VBad end;
     op_spec := fun_spec (fun a => match a with
       | [h; q] => match as_z h, c05_node q with
           | Some h, Some q =>
               let hn := Z.to_nat h in VL [VZ (c05_rank hn q); VZ (enc hn q)]
           | _, _ => VBad end
       | _ => VBad end) |}.

(** widened (step 4): the accessors applied to IndexToPath's result *)
Definition op_fields : opdef :=
  {| op_name := "bmtree.IndexToPath/fields";
     op_run := fun a => match a with
       | [h; idx] => match as_z h, as_z idx with
           | Some h, Some idx =>
               if c05_dom h idx then
                 match IndexToPath h idx with
                 | Some w => VL [VZ (PathLen w); VZ (PathHeight w); VZ (PathBits w); VZ (PathMask w); vzs (PathStr w)]
                 | None => VPanic end
               else VBad
           | _, _ => VBad end
       | _ => VBad end;
     op_spec := fun_spec (fun a => match a with
       | [h; idx] => match as_z h, as_z idx with
           | Some h, Some idx =>
               let '(pl, ph, pb, pm, ps) := spec_fields (Z.to_nat h) idx in
               VL [VZ pl; VZ ph; VZ pb; VZ pm; vzs ps]
           | _, _ => VBad end
       | _ => VBad end) |}.

(** the numeric order of two results *)
Definition op_order : opdef :=
  {| op_name := "bmtree.IndexToPath/order";
     op_run := fun a => match a with
       | [h; i; j] => match as_z h, as_z i, as_z j with
           | Some h, Some i, Some j =>
               if c05_dom h i && c05_dom h j then
                 match IndexToPath h i, IndexToPath h j with
                 | Some wi, Some wj => VZ (cmp_sign (wi ?= wj))
                 | _, _ => VPanic end
               else VBad
           | _, _, _ => VBad end
       | _ => VBad end;
     op_spec := fun_spec (fun a => match a with
       | [h; i; j] => match as_z i, as_z j with
           | Some i, Some j => VZ (spec_order i j)
           | _, _ => VBad end
       | _ => VBad end) |}.

(** PathToIndexLoose on the full tree, then IndexToPath back *)
Definition op_loose_full : opdef :=
  {| op_name := "bmtree.PathToIndexLoose/full";
     op_run := fun a => match a with
       | [h; q] => match as_z h, c05_node q with
           | Some h, Some q =>
               if (0 <=? h) && (h <=? 30) && (zlen q <=? h) then
                 let w := NewPath (valL (Z.to_nat h) q) (zlen q) h in
                 match PathToIndexLoose (2 ^ (h + 1) - 1) w with
                 | Some (i, has) =>
                     match IndexToPath h i with
                     | Some w' => VL [VZ i; VZ has; VZ w']
                     | None => VPanic end
                 | None => VPanic end
               else VBad
           | _, _ => VBad end
       | _ => VBad end;
     op_spec := fun_spec (fun a => match a with
       | [h; q] => match as_z h, c05_node q with
           | Some h, Some q =>
               let hn := Z.to_nat h in
               let '(i, has) := spec_loose_full hn q in VL [VZ i; VZ has; VZ (enc hn q)]
           | _, _ => VBad end
       | _ => VBad end) |}.

(** Height of the full tree's bitmap size: what callers pass as [treeheight] *)
Definition op_height_full : opdef :=
  {| op_name := "bmtree.Height/full";
     op_run := fun a => match a with
       | [h] => match as_z h with
           | Some h => if (0 <=? h) && (h <=? 30) then VZ (Height (2 ^ (h + 1) - 1)) else VBad
           | None => VBad end
       | _ => VBad end;
     op_spec := fun_spec (fun a => match a with
       | [h] => match as_z h with Some h => VZ h | None => VBad end
       | _ => VBad end) |}.

(** AllPaths on the full tree next to the list IndexToPath h 0 .. T-1: obs = [AllPaths(T, 0, 1<<63), [IndexToPath(h, i)]_i].
    Both must be the words of the enumerated pre-order (the IndexToPath half is C05w_enumerates, the
    AllPaths half is C04_allpaths at T = 2^(h+1)-1). *)
Definition c05_all (h : Z) : option (list Z) :=
  opt_all (map (fun i => IndexToPath h (Z.of_nat i)) (seq 0 (Z.to_nat (2 ^ (h + 1) - 1)))).

Definition op_allpaths_full : opdef :=
  {| op_name := "bmtree.AllPaths/full";
     op_run := fun a => match a with
       | [h] => match as_z h with
           | Some h =>
               if (0 <=? h) && (h <=? 14) then
                 match AllPaths (2 ^ (h + 1) - 1) 0 (2 ^ 63), c05_all h with
                 | Some l, Some l' => VL [vzs l; vzs l']
                 | _, _ => VPanic end
               else VBad
           | None => VBad end
       | _ => VBad end;
     op_spec := fun_spec (fun a => match a with
       | [h] => match as_z h with
           | Some h =>
               let l := map (enc (Z.to_nat h)) (all_nodes (Z.to_nat h)) in VL [vzs l; vzs l]
           | None => VBad end
       | _ => VBad end) |}.

(** * history ops: IndexToPath is a function of its arguments, whatever was called before

    bmtree.AllPaths/scribble [hs, h, junk]: the caller takes the listing AllPaths(2^(hs+1)-1, 0, 1<<63)
    of a tiny full bitmap, renders it, overwrites every element of the returned slice with [junk], and
    then lists IndexToPath(h, i) for every index of the tree of height h.  obs = [listing, [words]]. *)
Definition op_scribble : opdef :=
  {| op_name := "bmtree.AllPaths/scribble";
     op_run := fun a => match a with
       | [hs; h; junk] => match as_z hs, as_z h, as_z junk with
           | Some hs, Some h, Some _ =>
               if (0 <=? hs) && (hs <=? 8) && (0 <=? h) && (h <=? 12) then
                 match AllPaths (2 ^ (hs + 1) - 1) 0 (2 ^ 63), c05_all h with
                 | Some l, Some l' => VL [vzs l; vzs l']
                 | _, _ => VPanic end
               else VBad
           | _, _, _ => VBad end
       | _ => VBad end;
     op_spec := fun_spec (fun a => match a with
       | [hs; h; _] => match as_z hs, as_z h with
           | Some hs, Some h =>
               VL [vzs (map (enc (Z.to_nat hs)) (all_nodes (Z.to_nat hs)));
                   vzs (map (enc (Z.to_nat h)) (all_nodes (Z.to_nat h)))]
           | _, _ => VBad end
       | _ => VBad end) |}.

(** bmtree.IndexToPath/session [h, [i1, i2, …]]: consecutive calls on one height; obs = the words *)
Definition c05_session_dom (h : Z) (l : list Z) : bool :=
  (0 <=? h) && (h <=? 30) && forallb (fun i => (0 <=? i) && (i <? 2 ^ (h + 1) - 1)) l.

Definition op_session : opdef :=
  {| op_name := "bmtree.IndexToPath/session";
     op_run := fun a => match a with
       | [h; l] => match as_z h, as_zs l with
           | Some h, Some l =>
               if c05_session_dom h l then
                 match opt_all (map (IndexToPath h) l) with
                 | Some ws => vzs ws | None => VPanic end
               else VBad
           | _, _ => VBad end
       | _ => VBad end;
     op_spec := fun_spec (fun a => match a with
       | [h; l] => match as_z h, as_zs l with
           | Some h, Some l => vzs (map (spec_index_to_path (Z.to_nat h)) l)
           | _, _ => VBad end
       | _ => VBad end) |}.

(** bmtree.PathToIndex/then-IndexToPath [T, [node, …]]: for every node (of the tree of the level
    mask T, possibly partial or leaf-only): (pos, has) = PathToIndexLoose(T, word); if has then also
    PathToIndex(T, word); then IndexToPath(Height T, .) at pos - 1, pos, pos + 1 (0 where that is not
    an index of the full tree).  obs = [[pos, has, pos' (or -1), w-, w, w+], …].
    The positions are C03's pre-order ranks among the stored nodes; the words must be those of the
    FULL tree whatever mask was queried before. *)
Definition c05_itp_or0 (h i : Z) : option Z :=
  if (0 <=? i) && (i <? 2 ^ (h + 1) - 1) then IndexToPath h i else Some 0.

Definition c05_spec_or0 (h i : Z) : Z :=
  if (0 <=? i) && (i <? 2 ^ (h + 1) - 1) then spec_index_to_path (Z.to_nat h) i else 0.

Definition c05_nodes (v : val) : option (list node) :=
  match v with VL l => opt_all (map c05_node l) | _ => None end.

Definition c05_then_dom (T : Z) (qs : list node) : bool :=
  (1 <=? T) && (T <? 2 ^ 31) && forallb (fun q => zlen q <=? Height T) qs.

Definition c05_then_step (T : Z) (q : node) : option val :=
  let h := Height T in
  let w := NewPath (valL (Z.to_nat h) q) (zlen q) h in
  match PathToIndexLoose T w with
  | Some (pos, has) =>
      match (if has =? 1 then PathToIndex T w else Some (-1)) with
      | Some pos' =>
          match c05_itp_or0 h (pos - 1), c05_itp_or0 h pos, c05_itp_or0 h (pos + 1) with
          | Some a, Some b, Some c => Some (vzs [pos; has; pos'; a; b; c])
          | _, _, _ => None
          end
      | None => None
      end
  | None => None
  end.

Definition c05_then_spec (T : Z) (q : node) : val :=
  let h := Height T in
  let hn := Z.to_nat h in
  let pos := spec_rank T hn q in
  let has := Z.b2z (stored T q) in
  vzs [pos; has; (if stored T q then pos else -1);
       c05_spec_or0 h (pos - 1); c05_spec_or0 h pos; c05_spec_or0 h (pos + 1)].

Definition op_then : opdef :=
  {| op_name := "bmtree.PathToIndex/then-IndexToPath";
     op_run := fun a => match a with
       | [T; qs] => match as_z T, c05_nodes qs with
           | Some T, Some qs =>
               if c05_then_dom T qs then
                 match opt_all (map (c05_then_step T) qs) with
                 | Some l => VL l | None => VPanic end
               else VBad
           | _, _ => VBad end
       | _ => VBad end;
     op_spec := fun_spec (fun a => match a with
       | [T; qs] => match as_z T, c05_nodes qs with
           | Some T, Some qs => VL (map (c05_then_spec T) qs)
           | _, _ => VBad end
       | _ => VBad end) |}.

Definition ops_C05 : list opdef :=
  [ op_index_to_path; op_inverse; op_fields; op_order; op_loose_full; op_height_full; op_allpaths_full;
    op_scribble; op_session; op_then ].
