(** Protocol operations for C10 (see Lib/Val.v).
    A node is transmitted as (h, [b0,b1,…]) with bi in {0,1}; BOTH sides build
    the path word (Go: bmtree.NewPath(bits left-aligned in h, len, h)). *)
From Coq Require Import ZArith List Bool String.
From Low Require Import Lib.Bits Lib.BitSeq Lib.Lex Lib.Bytes Lib.Val
  Spec.Bmtree Spec.PathSpec Model.BmtreePath Model.BmtreePathStr Run.WideC10.
Import ListNotations.
Open Scope string_scope.
Open Scope Z_scope.

Definition c10_node (v : val) : option node :=
  match as_zs v with
  | Some l => if forallb (fun z => (z =? 0) || (z =? 1)) l then Some (map (fun z => z =? 1) l) else None
  | None => None
  end.

(** domain of the property: h <= 32, |q| <= h *)
Definition c10_dom (h : Z) (q : node) : bool := (0 <=? h) && (h <=? 32) && (zlen q <=? h).

Definition c10_word (h : Z) (q : node) : Z := NewPath (valL (Z.to_nat h) q) (zlen q) h.

Definition ops_C10_core : list opdef := [
  (* observation: [word, PathLen, PathHeight, PathBits, PathMask, PathStr] *)
  {| op_name := "bmtree.NewPath/fields";
     op_run := fun a => match a with
       | [h; q] => match as_z h, c10_node q with
           | Some h, Some q =>
               if c10_dom h q then
                 let w := c10_word h q in
                 VL [VZ w; VZ (PathLen w); VZ (PathHeight w); VZ (PathBits w); VZ (PathMask w); vzs (PathStr w)]
               else VBad
           | _, _ => VBad end
       | _ => VBad end;
     op_spec := fun a obs => match a with
       | [h; q] => match as_z h, c10_node q, obs with
           | Some h, Some q, VL [VZ w; VZ pl; VZ ph; VZ pb; VZ pm; ps] =>
               match as_zs ps with
               | Some ps => fields_ok h q w pl ph pb pm ps
               | None => false end
           | _, _, _ => false end
       | _ => false end |};
  (* observation: the two words; the property compares their numeric order with pre-order *)
  {| op_name := "bmtree.NewPath/order";
     op_run := fun a => match a with
       | [h; q1; q2] => match as_z h, c10_node q1, c10_node q2 with
           | Some h, Some q1, Some q2 =>
               if c10_dom h q1 && c10_dom h q2 then VL [VZ (c10_word h q1); VZ (c10_word h q2)] else VBad
           | _, _, _ => VBad end
       | _ => VBad end;
     op_spec := fun a obs => match a with
       | [h; q1; q2] => match c10_node q1, c10_node q2, obs with
           | Some q1, Some q2, VL [VZ w1; VZ w2] => order_ok q1 q2 w1 w2
           | _, _, _ => false end
       | _ => false end |}
].

(** core operations + the widening round (Run/WideC10.v) *)
Definition ops_C10 : list opdef := (ops_C10_core ++ ops_C10_wide)%list.
