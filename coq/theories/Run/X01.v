(** Protocol operations for the extra check X01 (package vers), see Lib/Val.v.

    [vers.IsCompatible] [x<ver>, [x<spec>, ...]] -> 0 | 1 | P        the real function on strings
    [vers.Check]        the same arguments, release build (must disabled); on input outside Check's contract
                        (invalid version, invalid or malformed range) only model = implementation is compared
    [vers.Check/debug]  the same arguments, -tags debug build (must enabled): the value, or P
    [vers.IsCompatible/malformed], [vers.Check/debug/malformed]  the strict specification on the recorded malformed ranges
    [vers.IsCompatible/ast] [V, [[[op, spelling, V], ...], ...]] -> 0 | 1 | P
                        a version and a range given as STRUCTURE: V = [major, minor, patch, [ident, ...], [x<build>, ...]],
                        ident = [0, n] | [1, x<text>], op = 0..5 (= != > >= < <=), spelling = which way of writing the
                        operator.  Both sides print the canonical strings (one spec element per group) and the harness
                        calls the real IsCompatible on them; the specification evaluates the structure directly with
                        the precedence order of the standard, WITHOUT the modelled parsers.
    [vers.Check/ast]    the same through Check. *)
From Coq Require Import ZArith List Bool String.
From Low Require Import Lib.Val Lib.Decimal_xpk Model.Semver Model.Vers Spec.VersSpec Spec.VersPrint.
Import ListNotations.
Open Scope string_scope.
Open Scope Z_scope.

Definition ascii_ok (s : list Z) : bool := forallb (fun b => (0 <=? b) && (b <? 128)) s.

Definition dec_strs (a : list val) : option (list Z * list (list Z)) :=
  match a with
  | [ver; spec] =>
      match as_zs ver, as_zss spec with
      | Some ver, Some spec => if ascii_ok ver && forallb ascii_ok spec then Some (ver, spec) else None
      | _, _ => None
      end
  | _ => None
  end.

Definition vob (r : option bool) : val := match r with Some b => vbool b | None => VPanic end.

(** Check in a release build: specified only inside its contract *)
Definition spec_Check_release (ver : list Z) (spec : list (list Z)) : option bool :=
  match Parse ver, range_groups (Semver.join or_sep spec) with
  | Some v, Ok gs => if groups_wf gs then Some (range_holds gs v) else Check false ver spec
  | _, _ => Check false ver spec
  end.

(** malformed ranges ("a || || b": an empty group): the library accepts them and returns a closure that panics or
    answers true (recorded finding, known_findings.txt).  The main operations compare model and implementation
    there; the STRICT specification (false / a panic) is applied by the operations with suffix /malformed, which
    only ever see the recorded cases, so that the recorded finding cannot mask a new violation. *)
Definition malformed (spec : list (list Z)) : bool :=
  match range_groups (Semver.join or_sep spec) with Ok gs => negb (groups_wf gs) | _ => false end.

(** * structures *)
Definition dec_ident (v : val) : option PRVersion :=
  match v with
  | VL [VZ 0; VZ n] => if (0 <=? n) && (n <? 2 ^ 64) then Some {| pr_str := []; pr_num := n; pr_isnum := true |} else None
  | VL [VZ 1; s] =>
      match as_zs s with
      | Some s => if only_alphanum s && negb (only_numbers s) && negb (Nat.eqb (List.length s) 0)
                  then Some {| pr_str := s; pr_num := 0; pr_isnum := false |} else None
      | None => None
      end
  | _ => None
  end.

Definition dec_build (v : val) : option (list Z) :=
  match as_zs v with
  | Some s => if only_alphanum s && negb (Nat.eqb (List.length s) 0) then Some s else None
  | None => None
  end.

Definition dec_version (v : val) : option Version :=
  match v with
  | VL [VZ ma; VZ mi; VZ pa; VL pre; VL bld] =>
      match opt_all (map dec_ident pre), opt_all (map dec_build bld) with
      | Some pre, Some bld =>
          if forallb (fun n => (0 <=? n) && (n <? 2 ^ 64)) [ma; mi; pa]
          then Some {| v_major := ma; v_minor := mi; v_patch := pa; v_pre := pre; v_build := bld |}
          else None
      | _, _ => None
      end
  | _ => None
  end.

Definition dec_comparator (k : Z) : option comparator :=
  if k =? 0 then Some CEQ else if k =? 1 then Some CNE else if k =? 2 then Some CGT
  else if k =? 3 then Some CGE else if k =? 4 then Some CLT else if k =? 5 then Some CLE else None.

(** a comparator with its spelling, and the version *)
Definition dec_cmp (v : val) : option (comparator * list Z * Version) :=
  match v with
  | VL [VZ k; VZ sp; w] =>
      match dec_comparator k, dec_version w with
      | Some c, Some w =>
          match nth_error (op_spellings c) (Z.to_nat sp) with
          | Some s => if (0 <=? sp) && no_x w then Some (c, s, w) else None
          | None => None
          end
      | _, _ => None
      end
  | _ => None
  end.

Definition dec_ast (a : list val) : option (Version * list (list (comparator * list Z * Version))) :=
  match a with
  | [v; VL gs] =>
      match dec_version v,
            opt_all (map (fun g => match g with VL cs => opt_all (map dec_cmp cs) | _ => None end) gs) with
      | Some v, Some gs =>
          if negb (Nat.eqb (List.length gs) 0) && forallb (fun g => negb (Nat.eqb (List.length g) 0)) gs
          then Some (v, gs) else None
      | _, _ => None
      end
  | _ => None
  end.

Definition ops_X01 : list opdef := [
  {| op_name := "vers.IsCompatible";
     op_run := fun a => match dec_strs a with Some (ver, spec) => vob (IsCompatible ver spec) | None => VBad end;
     op_spec := fun_spec (fun a => match dec_strs a with
       | Some (ver, spec) => vob (if malformed spec then IsCompatible ver spec else spec_IsCompatible ver spec)
       | None => VBad end) |};
  {| op_name := "vers.IsCompatible/malformed";
     op_run := fun a => match dec_strs a with Some (ver, spec) => vob (IsCompatible ver spec) | None => VBad end;
     op_spec := fun_spec (fun a => match dec_strs a with Some (ver, spec) => vob (spec_IsCompatible ver spec) | None => VBad end) |};
  {| op_name := "vers.Check";
     op_run := fun a => match dec_strs a with Some (ver, spec) => vob (Check false ver spec) | None => VBad end;
     op_spec := fun_spec (fun a => match dec_strs a with Some (ver, spec) => vob (spec_Check_release ver spec) | None => VBad end) |};
  {| op_name := "vers.Check/debug";
     op_run := fun a => match dec_strs a with Some (ver, spec) => vob (Check true ver spec) | None => VBad end;
     op_spec := fun_spec (fun a => match dec_strs a with
       | Some (ver, spec) => vob (if malformed spec then Check true ver spec else spec_Check ver spec)
       | None => VBad end) |};
  {| op_name := "vers.Check/debug/malformed";
     op_run := fun a => match dec_strs a with Some (ver, spec) => vob (Check true ver spec) | None => VBad end;
     op_spec := fun_spec (fun a => match dec_strs a with Some (ver, spec) => vob (spec_Check ver spec) | None => VBad end) |};
  {| op_name := "vers.IsCompatible/ast";
     op_run := fun a => match dec_ast a with
       | Some (v, gs) => vob (IsCompatible (version_string v) (map group_string gs))
       | None => VBad end;
     op_spec := fun_spec (fun a => match dec_ast a with
       | Some (v, gs) => vbool (range_holds (strip gs) v)
       | None => VBad end) |};
  {| op_name := "vers.Check/ast";
     op_run := fun a => match dec_ast a with
       | Some (v, gs) => vob (Check false (version_string v) (map group_string gs))
       | None => VBad end;
     op_spec := fun_spec (fun a => match dec_ast a with
       | Some (v, gs) => vbool (range_holds (strip gs) v)
       | None => VBad end) |}
].
