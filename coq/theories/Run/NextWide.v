(** Protocol operations of the C13 widening (appended to [ops_C13] in Run/C13.v).
    The bitmap argument of these ops is run-length coded: a list of segments
    [[z, w]] = [z] all-zero words followed by the word [w] (so bitmaps with
    thousands of empty words stay short on the wire; the Go side expands them
    the same way).
    [bitmap.NextOne/sparse] [bitmap.PrevOne/sparse] [segs; i; e]: one call; model = the int32 model
        (Model/BitmapNext32.v), spec = first / last 1-bit of the range.
    [bitmap.Next/held] [segs; queries]: queries [[kind; i; e]] (kind 0 = NextOne, 1 = PrevOne), all run
        on ONE slice, twice over, then the slice is compared with a copy taken before:
        observed = [results; results again; unchanged]; model = int32 model.
    [bitmap.NextOne/iter] [bitmap.PrevOne/iter] [segs; i; e]: walk the range with NextOne forwards /
        PrevOne backwards (Model/BitmapNextIter.v); spec = the 1-bits of the range ascending / descending.
    [bitmap.Next/ToArray] [segs]: [NextOne walk of the whole bitmap; PrevOne walk; ToArray(bm)];
        spec = [ones; rev ones; ones].
    [bitmap.NextPrev/dual] [segs; i; e] (i < e): the six calls of [NextPrevDual];
        spec = [first; last; first; last; -1; -1].
    [bitmap.Next/Get1] [segs; i; e] (i < e): [n; Get1(bm,n) or -1; p; Get1(bm,p) or -1] ([NextGet1]);
        spec = [first; 1 or -1; last; 1 or -1].
    [bitmap.Next/count] [segs; tr; i; e] (e < 64*len): [rounds of the NextOne walk; of the PrevOne walk;
        Rank64(e) - Rank64(i)] with the index of IndexRank64(bm, tr) ([WalkCount]); spec = three times the
        number of 1-bits of the range.
    [bitmap.Of/walk] [ps; opt] (ps strictly ascending, non-negative; opt = [] or [n]): build with
        Of(ps, n), walk the whole result with NextOne and with PrevOne; spec = [ps; rev ps].
    [bitmap.Next/Select32] [segs]: the NextOne walk of the whole bitmap, and Select32 / Select32R64 (over
        IndexSelect32 / IndexSelect32R64) for every index of the walk ([WalkSelect]):
        [walk; [[a,b]..] of Select32; [[a,b]..] of Select32R64]; spec = [ones; pairs; pairs], pairs = the k-th and
        (k+1)-th 1-bit (64*len after the last).
    [bitmap.Slice/walk] [segs; from; to]: r := Slice(bm, from, to), then the NextOne walk and the PrevOne walk of the
        whole of r ([SliceWalk]); spec = [the 1-bits of [from, to) minus from; the same reversed].
    [bitmap.NextOne/any] [bitmap.PrevOne/any] [segs; i; e]: ANY int32 [i], [e] (outside the property's domain
        too); model = int32 model, spec = Spec/NextTotalSpec.v (exact panic sets).  DIAGNOSTIC ONLY: no
        generator of ./check C13 emits these (behaviour outside the stated domain is not compared by the
        check); the harness generator "C13x" does, for a one-off validation of the model theorems
        C13_NextOne_any / C13_PrevOne_any / C13_int32_agree against the real code (docs/selftest-C13.md). *)
From Coq Require Import ZArith List Bool String.
From Low Require Import Lib.Bits Lib.BitSeq Lib.Val Model.BitmapNext Model.BitmapNext32 Model.BitmapNextIter
  Model.BitmapOf Model.BitmapNextReaders Spec.NextSpec Spec.NextTotalSpec.
Import ListNotations.
Open Scope string_scope.
Open Scope Z_scope.

Fixpoint unrle (segs : list (list Z)) : option (list Z) :=
  match segs with
  | [] => Some []
  | [z; w] :: t =>
      if z <? 0 then None
      else match unrle t with
           | Some r => Some ((repeat 0 (Z.to_nat z) ++ w :: r)%list)
           | None => None
           end
  | _ => None
  end.

(** a well-formed bitmap argument inside the size hypothesis [64 * len < 2^31] *)
Definition as_bm (v : val) : option (list Z) :=
  match as_zss v with
  | Some segs =>
      match unrle segs with
      | Some bm => if words_okb bm && (64 * zlen bm <? 2^31) then Some bm else None
      | None => None
      end
  | None => None
  end.

Definition vozs (o : option (list Z)) : val := match o with Some l => vzs l | None => VPanic end.
Definition voz (o : option Z) : val := match o with Some r => VZ r | None => VPanic end.

Definition iter_dom (bm : list Z) (i e : Z) : bool := (0 <=? i) && (i <=? e) && (e <=? 64 * zlen bm).

(** one query of a held-bitmap case *)
Definition q_dom (bm : list Z) (q : list Z) : bool :=
  match q with
  | [k; i; e] => if k =? 0 then next_dom bm i e else if k =? 1 then prev_dom bm i e else false
  | _ => false
  end.
Definition q_run (bm : list Z) (q : list Z) : option Z :=
  match q with
  | [k; i; e] => if k =? 0 then NextOne32 bm i e else PrevOne32 bm i e
  | _ => None
  end.
Definition q_spec (bm : list Z) (q : list Z) : Z :=
  match q with
  | [k; i; e] => if k =? 0 then spec_NextOne bm i e else spec_PrevOne bm i e
  | _ => 0
  end.

Definition with_bm_i_e (a : list val) (dom : list Z -> Z -> Z -> bool) (f : list Z -> Z -> Z -> val) : val :=
  match a with
  | [bm; i; e] =>
      match as_bm bm, as_z i, as_z e with
      | Some bm, Some i, Some e => if dom bm i e then f bm i e else VBad
      | _, _, _ => VBad
      end
  | _ => VBad
  end.

Definition as_optz (v : val) : option (option Z) :=
  match v with
  | VL [] => Some None
  | VL [VZ n] => Some (Some n)
  | _ => None
  end.

Fixpoint ascendingb (prev : Z) (l : list Z) : bool :=
  match l with
  | [] => true
  | x :: t => (prev <? x) && ascendingb x t
  end.

(** strictly ascending, non-negative, and small enough for [64 * len < 2^31] *)
Definition ofwalk_dom (ps : list Z) (opt : option Z) : bool :=
  ascendingb (-1) ps && (last ps 0 <? 2^30) && match opt with Some n => n <? 2^30 | None => true end.

Definition vpairs (l : list (Z * Z)) : val := VL (map (fun p => VL [VZ (fst p); VZ (snd p)]) l).

Definition i32_okb (x : Z) : bool := (- 2^31 <=? x) && (x <? 2^31).

Definition ops_C13_wide : list opdef := [
  {| op_name := "bitmap.NextOne/sparse";
     op_run := fun a => with_bm_i_e a next_dom (fun bm i e => voz (NextOne32 bm i e));
     op_spec := fun_spec (fun a => with_bm_i_e a next_dom (fun bm i e => VZ (spec_NextOne bm i e))) |};
  {| op_name := "bitmap.PrevOne/sparse";
     op_run := fun a => with_bm_i_e a prev_dom (fun bm i e => voz (PrevOne32 bm i e));
     op_spec := fun_spec (fun a => with_bm_i_e a prev_dom (fun bm i e => VZ (spec_PrevOne bm i e))) |};
  {| op_name := "bitmap.Next/held";
     op_run := fun a => match a with
       | [bm; qs] => match as_bm bm, as_zss qs with
           | Some bm, Some qs =>
               if forallb (q_dom bm) qs
               then match opt_all (map (q_run bm) qs) with
                    | Some r => VL [vzs r; vzs r; VZ 1]
                    | None => VPanic
                    end
               else VBad
           | _, _ => VBad end
       | _ => VBad end;
     op_spec := fun_spec (fun a => match a with
       | [bm; qs] => match as_bm bm, as_zss qs with
           | Some bm, Some qs => let r := map (q_spec bm) qs in VL [vzs r; vzs r; VZ 1]
           | _, _ => VBad end
       | _ => VBad end) |};
  {| op_name := "bitmap.NextOne/iter";
     op_run := fun a => with_bm_i_e a iter_dom (fun bm i e => vozs (IterNext bm i e));
     op_spec := fun_spec (fun a => with_bm_i_e a iter_dom (fun bm i e => vzs (ones_in bm i e))) |};
  {| op_name := "bitmap.PrevOne/iter";
     op_run := fun a => with_bm_i_e a iter_dom (fun bm i e => vozs (IterPrev bm i e));
     op_spec := fun_spec (fun a => with_bm_i_e a iter_dom (fun bm i e => vzs (rev (ones_in bm i e)))) |};
  {| op_name := "bitmap.Next/ToArray";
     op_run := fun a => match a with
       | [bm] => match as_bm bm with
           | Some bm =>
               match IterNext bm 0 (64 * zlen bm), IterPrev bm 0 (64 * zlen bm), ToArray bm with
               | Some x, Some y, Some z => VL [vzs x; vzs y; vzs z]
               | _, _, _ => VPanic
               end
           | None => VBad end
       | _ => VBad end;
     op_spec := fun_spec (fun a => match a with
       | [bm] => match as_bm bm with
           | Some bm => let o := ones (flat bm) in VL [vzs o; vzs (rev o); vzs o]
           | None => VBad end
       | _ => VBad end) |};
  {| op_name := "bitmap.NextPrev/dual";
     op_run := fun a => with_bm_i_e a (fun bm i e => next_dom bm i e && (i <? e))
                          (fun bm i e => vozs (NextPrevDual bm i e));
     op_spec := fun_spec (fun a => with_bm_i_e a (fun bm i e => next_dom bm i e && (i <? e))
                          (fun bm i e => let sn := spec_NextOne bm i e in let sp := spec_PrevOne bm i e in
                                         vzs [sn; sp; sn; sp; -1; -1])) |};
  {| op_name := "bitmap.Next/Get1";
     op_run := fun a => with_bm_i_e a (fun bm i e => next_dom bm i e && (i <? e))
                          (fun bm i e => vozs (NextGet1 bm i e));
     op_spec := fun_spec (fun a => with_bm_i_e a (fun bm i e => next_dom bm i e && (i <? e))
                          (fun bm i e => let sn := spec_NextOne bm i e in let sp := spec_PrevOne bm i e in
                                         vzs [sn; if sn =? -1 then -1 else 1; sp; if sp =? -1 then -1 else 1])) |};
  {| op_name := "bitmap.Next/count";
     op_run := fun a => match a with
       | [bm; tr; i; e] => match as_bm bm, as_bool tr, as_z i, as_z e with
           | Some bm, Some tr, Some i, Some e =>
               if iter_dom bm i e && (e <? 64 * zlen bm) then vozs (WalkCount bm tr i e) else VBad
           | _, _, _, _ => VBad end
       | _ => VBad end;
     op_spec := fun_spec (fun a => match a with
       | [bm; tr; i; e] => match as_bm bm, as_z i, as_z e with
           | Some bm, Some i, Some e => let c := zlen (ones_in bm i e) in vzs [c; c; c]
           | _, _, _ => VBad end
       | _ => VBad end) |};
  {| op_name := "bitmap.Next/Select32";
     op_run := fun a => match a with
       | [bm] => match as_bm bm with
           | Some bm =>
               match WalkSelect bm with
               | Some (l, s1, s2) => VL [vzs l; vpairs s1; vpairs s2]
               | None => VPanic
               end
           | None => VBad end
       | _ => VBad end;
     op_spec := fun_spec (fun a => match a with
       | [bm] => match as_bm bm with
           | Some bm => let o := ones (flat bm) in let ps := sel_pairs o (64 * zlen bm) in
                        VL [vzs o; vpairs ps; vpairs ps]
           | None => VBad end
       | _ => VBad end) |};
  {| op_name := "bitmap.NextOne/any";
     op_run := fun a => with_bm_i_e a (fun _ i e => i32_okb i && i32_okb e) (fun bm i e => voz (NextOne32 bm i e));
     op_spec := fun_spec (fun a => with_bm_i_e a (fun _ i e => i32_okb i && i32_okb e)
                                     (fun bm i e => voz (spec_NextOne_any bm i e))) |};
  {| op_name := "bitmap.PrevOne/any";
     op_run := fun a => with_bm_i_e a (fun _ i e => i32_okb i && i32_okb e) (fun bm i e => voz (PrevOne32 bm i e));
     op_spec := fun_spec (fun a => with_bm_i_e a (fun _ i e => i32_okb i && i32_okb e)
                                     (fun bm i e => voz (spec_PrevOne_any bm i e))) |};
  {| op_name := "bitmap.Of/walk";
     op_run := fun a => match a with
       | [ps; opt] => match as_zs ps, as_optz opt with
           | Some ps, Some opt =>
               if ofwalk_dom ps opt
               then match OfWalk ps opt with Some (x, y) => VL [vzs x; vzs y] | None => VPanic end
               else VBad
           | _, _ => VBad end
       | _ => VBad end;
     op_spec := fun_spec (fun a => match a with
       | [ps; opt] => match as_zs ps with
           | Some ps => VL [vzs ps; vzs (rev ps)]
           | None => VBad end
       | _ => VBad end) |};
  {| op_name := "bitmap.Slice/walk";
     op_run := fun a => with_bm_i_e a iter_dom
                          (fun bm i e => match SliceWalk bm i e with
                                         | Some (x, y) => VL [vzs x; vzs y]
                                         | None => VPanic
                                         end);
     op_spec := fun_spec (fun a => with_bm_i_e a iter_dom
                          (fun bm i e => let l := map (fun p => p - i) (ones_in bm i e) in VL [vzs l; vzs (rev l)])) |}
].
