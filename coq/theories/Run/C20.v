(** Protocol operations for C20 (see Lib/Val.v).

    Encoding of a Go value tree in [val] (written by harness/c20.go, which also
    BUILDS the Go value from the same text with reflect, so generation, corpus
    and replay go through one path).  The first element is the reflect.Kind
    number; type descriptions T (needed by Go to build empty / nil containers)
    are ignored here.

      [0]                         the nil interface (only at top level)
      [k, payload]                scalar, k = 1..16 (Bool, Int..Int64, Uint..Uintptr, Float32/64, Complex64/128)
      [24, x<bytes>]              string
      [23, T, nil?, [v,...]]      slice            (nil? = 1: nil slice, the list is empty)
      [17, T, [v,...]]            array
      [21, TK, TV, nil?, [[k,v],...]]  map
      [22, T, []] / [22, T, [v]]  nil / non-nil pointer
      [20, w, []] / [20, w, [v]]  nil / non-nil interface-typed slot (w = which interface type)
      [25, [v,...]]               struct
      [28, T, [v], path]          an INTERIOR pointer: a non-nil *T pointing into the value itself, to the
                                  part reached from the root by path; v is that part once more (the tree
                                  reading: the pointee is counted again); path is for the Go builder only

    SHARING: a slice, map or pointer node may carry one more trailing element, an
    integer id > 0: the Go side builds the node once per id and uses the SAME
    slice header / map / pointer at every occurrence of that id (the occurrences
    carry the same text).  The text is therefore the tree UNFOLDING of the Go
    value (a DAG); the decoder ignores the ids — size.Of is a tree sum over the
    unfolding (Properties/C20.v, theorems C20_graph_...). *)
From Coq Require Import ZArith List Bool String.
From Low Require Import Lib.Val Model.Size Spec.SizeSpec Model.SizeFmt Model.SizeStat Spec.SizeStatSpec Model.TypeHelper Spec.TypeHelperSpec Model.SizeGraph Spec.SizeGraphSpec.
Import ListNotations.
Open Scope string_scope.
Open Scope Z_scope.

Definition skind_of (k : Z) : option skind :=
  if k =? 1 then Some KBool else if k =? 2 then Some KInt else if k =? 3 then Some KInt8
  else if k =? 4 then Some KInt16 else if k =? 5 then Some KInt32 else if k =? 6 then Some KInt64
  else if k =? 7 then Some KUint else if k =? 8 then Some KUint8 else if k =? 9 then Some KUint16
  else if k =? 10 then Some KUint32 else if k =? 11 then Some KUint64 else if k =? 12 then Some KUintptr
  else if k =? 13 then Some KFloat32 else if k =? 14 then Some KFloat64 else if k =? 15 then Some KComplex64
  else if k =? 16 then Some KComplex128 else None.

Definition dec_opt (f : val -> option value) (l : list val) : option (option value) :=
  match l with
  | [] => Some None
  | [x] => match f x with Some v => Some (Some v) | None => None end
  | _ => None
  end.

Fixpoint dec (v : val) : option value :=
  match v with
  | VL (VZ k :: rest) =>
      if k =? 24 then
        match rest with
        | [VL bs] => match opt_all (map as_z bs) with Some bs => Some (VString bs) | None => None end
        | _ => None
        end
      else if k =? 23 then
        match rest with
        | [_; VZ nf; VL elems] | [_; VZ nf; VL elems; VZ _] =>
            match opt_all (map dec elems) with
            | Some l => if nf =? 0 then Some (VSlice (Some l))
                        else match l with [] => Some (VSlice None) | _ => None end
            | None => None
            end
        | _ => None
        end
      else if k =? 17 then
        match rest with
        | [_; VL elems] =>
            match opt_all (map dec elems) with Some l => Some (VArray l) | None => None end
        | _ => None
        end
      else if k =? 21 then
        match rest with
        | [_; _; VZ nf; VL pairs] | [_; _; VZ nf; VL pairs; VZ _] =>
            match opt_all (map (fun p => match p with
                                         | VL [a; b] => match dec a, dec b with
                                                        | Some a, Some b => Some (a, b)
                                                        | _, _ => None
                                                        end
                                         | _ => None
                                         end) pairs) with
            | Some l => if nf =? 0 then Some (VMap l)
                        else match l with [] => Some (VMap []) | _ => None end
            | None => None
            end
        | _ => None
        end
      else if k =? 22 then
        match rest with
        | [_; VL o] | [_; VL o; VZ _] => match dec_opt dec o with Some o => Some (VPtr o) | None => None end
        | _ => None
        end
      else if k =? 20 then
        match rest with
        | [_; VL o] => match dec_opt dec o with Some o => Some (VIface o) | None => None end
        | _ => None
        end
      else if k =? 28 then
        (* interior pointer [28, T, [v], path]: a non-nil pointer; v is the part it points to *)
        match rest with
        | [_; VL [x]; VL _] => match dec x with Some y => Some (VPtr (Some y)) | None => None end
        | _ => None
        end
      else if k =? 25 then
        match rest with
        | [VL fs] => match opt_all (map dec fs) with Some l => Some (VStruct l) | None => None end
        | _ => None
        end
      else
        match rest with
        | [VZ _] => match skind_of k with Some s => Some (VScalar s) | None => None end
        | _ => None
        end
  | _ => None
  end.

(** top level: [0] is the nil interface; [Some None] = nil, [None] = malformed *)
Definition dec_top (v : val) : option (option value) :=
  match v with
  | VL [VZ 0] => Some None
  | _ => match dec v with
         | Some x => if supportedb x then Some (Some x) else None
         | None => None
         end
  end.

(** ---- labelled values (the full report of Stat).

    A LABEL TREE runs parallel to the value tree:  lab = [x<type text>, [kid,...]],
    kid = [x<edge text>, lab]: one kid per slice / array element (edge empty), per
    map entry in the order of the value text (edge = fmt.Sprintf("%s", key)), per
    struct field (edge = field name), one under a non-nil pointer / interface
    (edge empty), none otherwise.  harness/c20.go computes it from the BUILT Go
    value with reflect ([Type().String()], [Type().Field(i).Name]) and fmt. *)
Fixpoint dec_l (v : val) (lab : val) {struct v} : option lvalue :=
  match lab with
  | VL [tyv; VL kids] =>
    match as_zs tyv with
    | None => None
    | Some ty =>
      match v with
      | VL (VZ k :: rest) =>
        if k =? 24 then
          match rest, kids with
          | [VL bs], [] => match opt_all (map as_z bs) with Some bs => Some (LString ty bs) | None => None end
          | _, _ => None
          end
        else if k =? 23 then
          match rest with
          | [_; VZ nf; VL elems] | [_; VZ nf; VL elems; VZ _] =>
            match (fix go (es ks : list val) {struct es} : option (list lvalue) :=
                     match es, ks with
                     | [], [] => Some []
                     | e :: es', VL [_; lb] :: ks' =>
                         match dec_l e lb with
                         | Some x => match go es' ks' with Some r => Some (x :: r) | None => None end
                         | None => None
                         end
                     | _, _ => None
                     end) elems kids with
            | None => None
            | Some l =>
                if nf =? 0 then Some (LSlice ty (Some l))
                else match l with [] => Some (LSlice ty None) | _ => None end
            end
          | _ => None
          end
        else if k =? 17 then
          match rest with
          | [_; VL elems] =>
            match (fix go (es ks : list val) {struct es} : option (list lvalue) :=
                     match es, ks with
                     | [], [] => Some []
                     | e :: es', VL [_; lb] :: ks' =>
                         match dec_l e lb with
                         | Some x => match go es' ks' with Some r => Some (x :: r) | None => None end
                         | None => None
                         end
                     | _, _ => None
                     end) elems kids with
            | None => None
            | Some l => Some (LArray ty l)
            end
          | _ => None
          end
        else if k =? 21 then
          match rest with
          | [_; _; VZ nf; VL pairs] | [_; _; VZ nf; VL pairs; VZ _] =>
            match (fix go (ps ks : list val) {struct ps} : option (list (list Z * value * lvalue)) :=
                     match ps, ks with
                     | [], [] => Some []
                     | VL [a; b] :: ps', VL [kt; lb] :: ks' =>
                         match as_zs kt, dec a, dec_l b lb with
                         | Some kt, Some a, Some x =>
                             match go ps' ks' with Some r => Some ((kt, a, x) :: r) | None => None end
                         | _, _, _ => None
                         end
                     | _, _ => None
                     end) pairs kids with
            | None => None
            | Some l => if nf =? 0 then Some (LMap ty l)
                        else match l with [] => Some (LMap ty []) | _ => None end
            end
          | _ => None
          end
        else if (k =? 22) || (k =? 20) then
          match rest with
          | [_; VL o] | [_; VL o; VZ _] =>
            match o, kids with
            | [], [] => Some (if k =? 22 then LPtr ty None else LIface ty None)
            | [x], [VL [_; lb]] =>
                match dec_l x lb with
                | Some x => Some (if k =? 22 then LPtr ty (Some x) else LIface ty (Some x))
                | None => None
                end
            | _, _ => None
            end
          | _ => None
          end
        else if k =? 28 then
          match rest, kids with
          | [_; VL [x]; VL _], [VL [_; lb]] =>
              match dec_l x lb with
              | Some y => Some (LPtr ty (Some y))
              | None => None
              end
          | _, _ => None
          end
        else if k =? 25 then
          match rest with
          | [VL fs] =>
            match (fix go (es ks : list val) {struct es} : option (list (list Z * lvalue)) :=
                     match es, ks with
                     | [], [] => Some []
                     | e :: es', VL [nm; lb] :: ks' =>
                         match as_zs nm, dec_l e lb with
                         | Some nm, Some x => match go es' ks' with Some r => Some ((nm, x) :: r) | None => None end
                         | _, _ => None
                         end
                     | _, _ => None
                     end) fs kids with
            | None => None
            | Some l => Some (LStruct ty l)
            end
          | _ => None
          end
        else
          match rest, kids with
          | [VZ _], [] => match skind_of k with Some s => Some (LScalar ty s) | None => None end
          | _, _ => None
          end
      | _ => None
      end
    end
  | _ => None
  end.

(** top level; the labelled value must erase to what [dec] reads from the same text *)
Definition dec_ltop (v lab : val) : option (option lvalue) :=
  match v with
  | VL [VZ 0] => Some None
  | _ => match dec_l v lab, dec v with
         | Some x, Some y => if supportedb y then Some (Some x) else None
         | _, _ => None
         end
  end.

(** options: AvgOf, and the unit as [] (AvgUnit = 0) or [k] (AvgUnit = 2^k) *)
Definition dec_opt_stat (avg unit : val) : option sopt :=
  match avg, unit with
  | VZ n, VL [] => Some {| avgOf := n; avgUnit := None |}
  | VZ n, VL [VZ k] => Some {| avgOf := n; avgUnit := Some k |}
  | _, _ => None
  end.

Definition stat_args (a : list val) : option (option lvalue * Z * Z * sopt) :=
  match a with
  | [v; lab; VZ depth; VZ maxItem; avg; unit] =>
      match dec_ltop v lab, dec_opt_stat avg unit with
      | Some d, Some o => Some (d, depth, maxItem, o)
      | _, _ => None
      end
  | _ => None
  end.

(** ---- typehelper.ToSlice on protocol values: the elements stay opaque texts *)
Definition targ_val (v : val) : targ val :=
  match v with
  | VL [VZ 23; _; VZ _; VL elems] | VL [VZ 23; _; VZ _; VL elems; VZ _] => ArgSlice elems
  | _ => ArgOther
  end.
(** [Index(i).Interface()]: an interface-kinded element is handed over as the interface it holds *)
Definition box_val (e : val) : val :=
  match e with
  | VL [VZ 20; _; VL o] => VL [VZ 20; VZ 0; VL o]
  | _ => VL [VZ 20; VZ 0; VL [e]]
  end.
Definition slots_val (rst : list (option val)) : val :=
  VL [VZ 23; VL [VZ 20; VZ 0]; VZ 0;
      VL (map (fun o => match o with Some b => b | None => VL [VZ 20; VZ 0; VL []] end) rst)].

(** ---- values with references into a heap (size.Of/heap):  [26, T, a] is a non-nil pointer
    (of type *T) to heap cell a; everything else as in [dec] *)
Definition dec_opt_g (f : val -> option gvalue) (l : list val) : option (option gvalue) :=
  match l with
  | [] => Some None
  | [x] => match f x with Some v => Some (Some v) | None => None end
  | _ => None
  end.

Fixpoint dec_g (v : val) : option gvalue :=
  match v with
  | VL (VZ k :: rest) =>
      if k =? 24 then
        match rest with
        | [VL bs] => match opt_all (map as_z bs) with Some bs => Some (GString bs) | None => None end
        | _ => None
        end
      else if k =? 23 then
        match rest with
        | [_; VZ nf; VL elems] | [_; VZ nf; VL elems; VZ _] =>
            match opt_all (map dec_g elems) with
            | Some l => if nf =? 0 then Some (GSlice (Some l))
                        else match l with [] => Some (GSlice None) | _ => None end
            | None => None
            end
        | _ => None
        end
      else if k =? 17 then
        match rest with
        | [_; VL elems] =>
            match opt_all (map dec_g elems) with Some l => Some (GArray l) | None => None end
        | _ => None
        end
      else if k =? 21 then
        match rest with
        | [_; _; VZ nf; VL pairs] | [_; _; VZ nf; VL pairs; VZ _] =>
            match opt_all (map (fun p => match p with
                                         | VL [a; b] => match dec_g a, dec_g b with
                                                        | Some a, Some b => Some (a, b)
                                                        | _, _ => None
                                                        end
                                         | _ => None
                                         end) pairs) with
            | Some l => if nf =? 0 then Some (GMap l)
                        else match l with [] => Some (GMap []) | _ => None end
            | None => None
            end
        | _ => None
        end
      else if k =? 22 then
        match rest with
        | [_; VL o] | [_; VL o; VZ _] => match dec_opt_g dec_g o with Some o => Some (GPtr o) | None => None end
        | _ => None
        end
      else if k =? 20 then
        match rest with
        | [_; VL o] => match dec_opt_g dec_g o with Some o => Some (GIface o) | None => None end
        | _ => None
        end
      else if k =? 28 then
        match rest with
        | [_; VL [x]; VL _] => match dec_g x with Some y => Some (GPtr (Some y)) | None => None end
        | _ => None
        end
      else if k =? 26 then
        match rest with
        | [_; VZ a] => if a <? 0 then None else Some (GRef (Z.to_nat a))
        | _ => None
        end
      else if k =? 25 then
        match rest with
        | [VL fs] => match opt_all (map dec_g fs) with Some l => Some (GStruct l) | None => None end
        | _ => None
        end
      else
        match rest with
        | [VZ _] => match skind_of k with Some s => Some (GScalar s) | None => None end
        | _ => None
        end
  | _ => None
  end.


(** a heap cell: [T, value] (T: its Go type, ignored here) *)
Definition dec_cell (c : val) : option gvalue :=
  match c with VL [_; v] => dec_g v | _ => None end.

(** an element of the variadic options: [0, AvgOf, unit] = an Opt; anything else = not an Opt *)
Definition dec_optarg (v : val) : option sopt :=
  match v with
  | VL [VZ 0; avg; unit] => dec_opt_stat avg unit
  | _ => None
  end.

(** ---- a session (size.Stat/after-panic): Of and the first line of Stat of a pointer to x1; a Stat
    call on a holder of that pointer and a member of an unsupported kind (1 = it panicked); the
    pointee replaced by x2; Of and Stat again.  Three rounds.  The functions keep nothing between
    calls: every observation is the function of its own argument. *)
Definition holder_of (variant : Z) (p : value) : value :=
  if variant =? 2 then VSlice (Some [VIface (Some p); VIface (Some VOther)])
  else if (variant =? 0) || (variant =? 1) then VStruct [p; VOther]
  else VStruct [p; VScalar KInt].

Definition first_val (o : option (option Z)) : val :=
  match o with
  | Some None => VL []
  | Some (Some n) => VL [VZ n]
  | None => VPanic
  end.

Definition session_round (of_ : option value -> val) (first : option value -> Z -> Z -> val)
    (panics : value -> bool) (x1 x2 : value) (d m variant : Z) : val :=
  let p1 := VPtr (Some x1) in
  let p2 := VPtr (Some x2) in
  VL [of_ (Some p1); first (Some p1) d m; vbool (panics (holder_of variant p1)); of_ (Some p2); first (Some p2) d m].

Definition session_args (a : list val) : option (value * value * Z * Z * Z) :=
  match a with
  | [_; v1; v2; VZ d; VZ m; VZ variant] =>
      match dec v1, dec v2 with
      | Some x1, Some x2 => if supportedb x1 && supportedb x2 then Some (x1, x2, d, m, variant) else None
      | _, _ => None
      end
  | _ => None
  end.

Definition ops_C20 : list opdef := [
  (* size.Of(v): the number, P for a panic *)
  {| op_name := "size.Of";
     op_run := fun a => match a with
       | [v] => match dec_top v with
                | Some d => match Of d with Some n => VZ n | None => VPanic end
                | None => VBad end
       | _ => VBad end;
     op_spec := fun_spec (fun a => match a with
       | [v] => match dec_top v with Some d => VZ (spec_Of d) | None => VBad end
       | _ => VBad end) |};
  (* corpus rows with a hand-computed size n (from sizeof_test.go): the property accepts only n,
     so a serializer / decoder mistake on either side shows (SPECFAIL if Go differs, MODELBUG if the model does) *)
  {| op_name := "size.Of/known";
     op_run := fun a => match a with
       | [v; VZ _] => match dec_top v with
                | Some d => match Of d with Some n => VZ n | None => VPanic end
                | None => VBad end
       | _ => VBad end;
     op_spec := fun a obs => match a with
       | [v; VZ n] => match dec_top v with
                      | Some d => val_eqb obs (VZ n) && (spec_Of d =? n)
                      | None => false end
       | _ => false end |};
  (* size.Stat(v, depth, maxItem): [] when the first line is "<nil>", [n] when it is "<type>: n" *)
  {| op_name := "size.Stat";
     op_run := fun a => match a with
       | [v; VZ depth; VZ maxItem] =>
           match dec_top v with
           | Some d => match StatFirst d depth maxItem with
                       | Some None => VL []
                       | Some (Some n) => VL [VZ n]
                       | None => VPanic end
           | None => VBad end
       | _ => VBad end;
     op_spec := fun_spec (fun a => match a with
       | [v; VZ _; VZ _] =>
           match dec_top v with
           | Some d => match spec_StatFirst d with None => VL [] | Some n => VL [VZ n] end
           | None => VBad end
       | _ => VBad end) |}
;
  (* size.Stat(v, depth, maxItem, Opt{AvgOf, AvgUnit}): the whole text, on the cases where Go's random
     map order cannot show (no listed map with two or more entries has its entries listed) *)
  {| op_name := "size.Stat/text";
     op_run := fun a => match stat_args a with
       | Some (d, depth, maxItem, o) =>
           if det_text d depth maxItem
           then match StatText d depth maxItem o with Some t => vzs t | None => VPanic end
           else VBad
       | None => VBad end;
     op_spec := fun_spec (fun a => match stat_args a with
       | Some (d, depth, maxItem, o) => vzs (spec_text d depth maxItem o)
       | None => VBad end) |};
  (* the same call, the lines of the report SORTED (byte order): on the cases where every map whose
     entries are listed is listed completely, so that only the order of the blocks is random *)
  {| op_name := "size.Stat/sorted";
     op_run := fun a => match stat_args a with
       | Some (d, depth, maxItem, o) =>
           if det_lines d depth maxItem
           then match StatLines d depth maxItem o with Some l => vzss (sort_lines l) | None => VPanic end
           else VBad
       | None => VBad end;
     op_spec := fun_spec (fun a => match stat_args a with
       | Some (d, depth, maxItem, o) => vzss (sort_lines (spec_lines d depth maxItem o))
       | None => VBad end) |}
;
  (* typehelper.ToSlice(v): the returned []interface{} written back as a value text, P for a panic *)
  {| op_name := "typehelper.ToSlice";
     op_run := fun a => match a with
       | [v] => match dec_top v with
                | Some _ => match ToSlice box_val (targ_val v) with Some rst => slots_val rst | None => VPanic end
                | None => VBad end
       | _ => VBad end;
     op_spec := fun_spec (fun a => match a with
       | [v] => match dec_top v with
                | Some _ => match spec_ToSlice box_val (targ_val v) with Some rst => slots_val rst | None => VPanic end
                | None => VBad end
       | _ => VBad end) |};
  (* size.Of(typehelper.ToSlice(v)): the composition users write to size the elements of a slice *)
  {| op_name := "typehelper.ToSlice+size.Of";
     op_run := fun a => match a with
       | [v] => match dec_top v with
                | Some d => match ToSlice box_value (targ_of d) with
                            | Some rst => match sizeof (slots_value rst) with Some n => VZ n | None => VPanic end
                            | None => VPanic end
                | None => VBad end
       | _ => VBad end;
     op_spec := fun_spec (fun a => match a with
       | [v] => match dec_top v with
                | Some d => match targ_of d with
                            | ArgSlice l => VZ (spec_ToSlice_size l)
                            | ArgOther => VPanic end
                | None => VBad end
       | _ => VBad end) |}
;
  (* size.Of of a value that shares pointers: args = [[[T_0, cell_0], ..., [T_n-1, cell_n-1]], root]; cell a may refer
     to cells below a only (an ordered, hence acyclic, heap).  Model: gsizeof on the heap;
     property: the structural sum of the tree unfolding *)
  {| op_name := "size.Of/heap";
     op_run := fun a => match a with
       | [VL cells; root] =>
           match opt_all (map dec_cell cells), dec_g root with
           | Some h, Some v =>
               if ordered h && refs_below (List.length h) v
               then match gsizeof h (enough_fuel h v) v with Some n => VZ n | None => VPanic end
               else VBad
           | _, _ => VBad end
       | _ => VBad end;
     op_spec := fun_spec (fun a => match a with
       | [VL cells; root] =>
           match opt_all (map dec_cell cells), dec_g root with
           | Some h, Some v =>
               match unfold h (enough_fuel h v) v with
               | Some t => if supportedb t then VZ (spec_size t) else VBad
               | None => VBad end
           | _, _ => VBad end
       | _ => VBad end) |}
;
  (* size.Stat(v, depth, maxItem, opts...): the variadic options; an option is [0, AvgOf, unit] (an Opt),
     [1] (an int) or [2] (a *Opt): only the first one counts, and it must be an Opt *)
  {| op_name := "size.Stat/opts";
     op_run := fun a => match a with
       | [v; lab; VZ depth; VZ maxItem; VL opts] =>
           match dec_ltop v lab with
           | Some d =>
               if det_text d depth maxItem
               then match StatOpts d depth maxItem (map dec_optarg opts) with Some t => vzs t | None => VPanic end
               else VBad
           | None => VBad end
       | _ => VBad end;
     op_spec := fun_spec (fun a => match a with
       | [v; lab; VZ depth; VZ maxItem; VL opts] =>
           match dec_ltop v lab with
           | Some d => match spec_opts d depth maxItem (map dec_optarg opts) with Some t => vzs t | None => VPanic end
           | None => VBad end
       | _ => VBad end) |}
;
  (* no memory between calls, also not after a call that panicked (see session_round) *)
  {| op_name := "size.Stat/after-panic";
     op_run := fun a => match session_args a with
       | Some (x1, x2, d, m, variant) =>
           let r := session_round
                      (fun data => match Of data with Some n => VZ n | None => VPanic end)
                      (fun data d m => first_val (StatFirst data d m))
                      (fun h => match StatFirst (Some h) 3 10 with None => true | Some _ => false end)
                      x1 x2 d m variant in
           VL [r; r; r]
       | None => VBad end;
     op_spec := fun_spec (fun a => match session_args a with
       | Some (x1, x2, d, m, variant) =>
           let r := session_round
                      (fun data => VZ (spec_Of data))
                      (fun data _ _ => match spec_StatFirst data with None => VL [] | Some n => VL [VZ n] end)
                      (fun h => negb (supportedb h))
                      x1 x2 d m variant in
           VL [r; r; r]
       | None => VBad end) |}
].
