(** Protocol operations for C08 (see Lib/Val.v).  Every op takes the word
    width n (1, 2, 4 or 8) as its first argument. *)
From Coq Require Import ZArith List Bool String.
From Low Require Import Lib.Bits Lib.BitSeq Lib.Bytes Lib.Val Lib.Pack_bw Lib.Lex Model.Bitword Spec.BitwordSpec Spec.BitwordSpecDirect Spec.BitwordSpecWiden.
Import ListNotations.
Open Scope string_scope.
Open Scope Z_scope.

Definition width_ok (n : Z) : bool := (n =? 1) || (n =? 2) || (n =? 4) || (n =? 8).

Definition vozs (o : option (list Z)) : val := match o with Some l => vzs l | None => VPanic end.
Definition voz (o : option Z) : val := match o with Some z => VZ z | None => VPanic end.
Definition vozss (o : option (list (list Z))) : val := match o with Some l => vzss l | None => VPanic end.

(** in-domain checks: out-of-domain arguments are a generator error (VBad) *)
Definition str_ok (s : list Z) : bool := bytes_okb s.

(** * helpers of the history / batch ops *)

(** batches in compact form: an alphabet of elements and a list of [index; run length] pairs; the
    batch is the concatenation of [run] copies of element [index] *)
Fixpoint expand_runs {A} (al : list A) (runs : list (list Z)) : option (list A) :=
  match runs with
  | [] => Some []
  | [idx; run] :: t =>
      match nthZ al idx, expand_runs al t with
      | Some e, Some r => if 0 <=? run then Some (repeat e (Z.to_nat run) ++ r)%list else None
      | _, _ => None
      end
  | _ :: _ => None
  end.

(** windows [lo, hi) of one flat buffer *)
Fixpoint cut_windows (flat : list Z) (ws : list (list Z)) : option (list (list Z)) :=
  match ws with
  | [] => Some []
  | [lo; hi] :: t =>
      match cut_windows flat t with
      | Some r =>
          if (0 <=? lo) && (lo <=? hi) && (hi <=? zlen flat)
          then Some (firstn (Z.to_nat (hi - lo)) (skipn (Z.to_nat lo) flat) :: r) else None
      | None => None
      end
  | _ :: _ => None
  end.

(** one probe of a scribble session: FromStr(p), Get(p, i) for every i, ToStr(FromStr(p)) *)
Definition probe_run (n : Z) (p : list Z) : val :=
  let w := newBW n in
  let ws := FromStr w p in
  match opt_all (map (Get w p) (zrange (zlen p * (8 / n)))), ToStr w ws with
  | Some gs, Some s => VL [vzs ws; vzs gs; vzs s]
  | _, _ => VPanic
  end.
Definition probe_spec (n : nat) (p : list Z) : val :=
  let ws := spec_FromStr n p in VL [vzs ws; vzs ws; vzs p].

Definition ops_C08 : list opdef := [
  {| op_name := "bitword.FromStr";
     op_run := fun a => match a with
       | [n; s] => match as_z n, as_zs s with
           | Some n, Some s => if width_ok n && str_ok s then vzs (FromStr (newBW n) s) else VBad
           | _, _ => VBad end
       | _ => VBad end;
     op_spec := fun_spec (fun a => match a with
       | [n; s] => match as_z n, as_zs s with
           | Some n, Some s => vzs (spec_FromStr (Z.to_nat n) s) | _, _ => VBad end
       | _ => VBad end) |};
  {| op_name := "bitword.Get";
     op_run := fun a => match a with
       | [n; s; i] => match as_z n, as_zs s, as_z i with
           | Some n, Some s, Some i =>
               if width_ok n && str_ok s && (0 <=? i) && (i <? zlen s * (8 / n))
               then voz (Get (newBW n) s i) else VBad
           | _, _, _ => VBad end
       | _ => VBad end;
     op_spec := fun_spec (fun a => match a with
       | [n; s; i] => match as_z n, as_zs s, as_z i with
           | Some n, Some s, Some i => voz (spec_Get (Z.to_nat n) s i) | _, _, _ => VBad end
       | _ => VBad end) |};
  (* ToStr on in-range words only (words >= 2^n are outside the property) *)
  {| op_name := "bitword.ToStr";
     op_run := fun a => match a with
       | [n; ws] => match as_z n, as_zs ws with
           | Some n, Some ws =>
               if width_ok n && words_inb (Z.to_nat n) ws then vozs (ToStr (newBW n) ws) else VBad
           | _, _ => VBad end
       | _ => VBad end;
     op_spec := fun_spec (fun a => match a with
       | [n; ws] => match as_z n, as_zs ws with
           | Some n, Some ws => vzs (spec_ToStr (Z.to_nat n) ws) | _, _ => VBad end
       | _ => VBad end) |};
  (* ToStr(FromStr(s)): the property says the result is s *)
  {| op_name := "bitword.ToStr/FromStr";
     op_run := fun a => match a with
       | [n; s] => match as_z n, as_zs s with
           | Some n, Some s =>
               if width_ok n && str_ok s then vozs (ToStr (newBW n) (FromStr (newBW n) s)) else VBad
           | _, _ => VBad end
       | _ => VBad end;
     op_spec := fun_spec (fun a => match a with
       | [n; s] => match as_zs s with Some s => vzs s | _ => VBad end
       | _ => VBad end) |};
  {| op_name := "bitword.FirstDiff";
     op_run := fun a => match a with
       | [n; x; y; from; end_] => match as_z n, as_zs x, as_zs y, as_z from, as_z end_ with
           | Some n, Some x, Some y, Some from, Some end_ =>
               if width_ok n && str_ok x && str_ok y && (0 <=? from) && (-1 <=? end_)
               then voz (FirstDiff (newBW n) x y from end_) else VBad
           | _, _, _, _, _ => VBad end
       | _ => VBad end;
     op_spec := fun_spec (fun a => match a with
       | [n; x; y; from; end_] => match as_z n, as_zs x, as_zs y, as_z from, as_z end_ with
           | Some n, Some x, Some y, Some from, Some end_ => VZ (spec_FirstDiff (Z.to_nat n) x y from end_)
           | _, _, _, _, _ => VBad end
       | _ => VBad end) |};
  {| op_name := "bitword.FromStrs";
     op_run := fun a => match a with
       | [n; ss] => match as_z n, as_zss ss with
           | Some n, Some ss => if width_ok n && forallb str_ok ss then vzss (FromStrs (newBW n) ss) else VBad
           | _, _ => VBad end
       | _ => VBad end;
     op_spec := fun_spec (fun a => match a with
       | [n; ss] => match as_z n, as_zss ss with
           | Some n, Some ss => vzss (spec_FromStrs (Z.to_nat n) ss) | _, _ => VBad end
       | _ => VBad end) |};
  {| op_name := "bitword.ToStrs";
     op_run := fun a => match a with
       | [n; wss] => match as_z n, as_zss wss with
           | Some n, Some wss =>
               if width_ok n && forallb (words_inb (Z.to_nat n)) wss then vozss (ToStrs (newBW n) wss) else VBad
           | _, _ => VBad end
       | _ => VBad end;
     op_spec := fun_spec (fun a => match a with
       | [n; wss] => match as_z n, as_zss wss with
           | Some n, Some wss => vzss (spec_ToStrs (Z.to_nat n) wss) | _, _ => VBad end
       | _ => VBad end) |};
  (* the same four conversions on LARGE inputs (tens of kilobytes: byte/bit/word offsets beyond 2^8 and
     2^16), judged by the word-by-word reading of Spec/BitwordSpecDirect.v (equal to the chunk reading by
     the C08_direct theorems), which costs linear time.  Get/large observes Get(s,i) and FromStr(s)[i] together. *)
  {| op_name := "bitword.Get/large";
     op_run := fun a => match a with
       | [n; s; i] => match as_z n, as_zs s, as_z i with
           | Some n, Some s, Some i =>
               if width_ok n && str_ok s && (0 <=? i) && (i <? zlen s * (8 / n))
               then match Get (newBW n) s i, nthZ (FromStr (newBW n) s) i with
                    | Some x, Some y => vzs [x; y]
                    | _, _ => VPanic end
               else VBad
           | _, _, _ => VBad end
       | _ => VBad end;
     op_spec := fun_spec (fun a => match a with
       | [n; s; i] => match as_z n, as_zs s, as_z i with
           | Some n, Some s, Some i =>
               match spec_word (Z.to_nat n) s i with Some x => vzs [x; x] | None => VPanic end
           | _, _, _ => VBad end
       | _ => VBad end) |};
  {| op_name := "bitword.FirstDiff/large";
     op_run := fun a => match a with
       | [n; x; y; from; end_] => match as_z n, as_zs x, as_zs y, as_z from, as_z end_ with
           | Some n, Some x, Some y, Some from, Some end_ =>
               if width_ok n && str_ok x && str_ok y && (0 <=? from) && (-1 <=? end_)
               then voz (FirstDiff (newBW n) x y from end_) else VBad
           | _, _, _, _, _ => VBad end
       | _ => VBad end;
     op_spec := fun_spec (fun a => match a with
       | [n; x; y; from; end_] => match as_z n, as_zs x, as_zs y, as_z from, as_z end_ with
           | Some n, Some x, Some y, Some from, Some end_ => VZ (spec_FirstDiff_direct (Z.to_nat n) x y from end_)
           | _, _, _, _, _ => VBad end
       | _ => VBad end) |};
  {| op_name := "bitword.FromStr/large";
     op_run := fun a => match a with
       | [n; s] => match as_z n, as_zs s with
           | Some n, Some s => if width_ok n && str_ok s then vzs (FromStr (newBW n) s) else VBad
           | _, _ => VBad end
       | _ => VBad end;
     op_spec := fun_spec (fun a => match a with
       | [n; s] => match as_z n, as_zs s with
           | Some n, Some s => vzs (spec_FromStr_seq (Z.to_nat n) s) | _, _ => VBad end
       | _ => VBad end) |};
  {| op_name := "bitword.ToStr/large";
     op_run := fun a => match a with
       | [n; ws] => match as_z n, as_zs ws with
           | Some n, Some ws =>
               if width_ok n && words_inb (Z.to_nat n) ws then vozs (ToStr (newBW n) ws) else VBad
           | _, _ => VBad end
       | _ => VBad end;
     op_spec := fun_spec (fun a => match a with
       | [n; ws] => match as_z n, as_zs ws with
           | Some n, Some ws => vzs (spec_ToStr_seq (Z.to_nat n) ws) | _, _ => VBad end
       | _ => VBad end) |};
  (* widened (Spec/BitwordSpecWiden.v).  FromStr/cmp is inside the property's domain: the sign of
     bytes.Compare(FromStr(a), FromStr(b)) is the sign of comparing a and b. *)
  {| op_name := "bitword.FromStr/cmp";
     op_run := fun a => match a with
       | [n; x; y] => match as_z n, as_zs x, as_zs y with
           | Some n, Some x, Some y =>
               if width_ok n && str_ok x && str_ok y
               then VZ (cmp_sign (bytes_cmp (FromStr (newBW n) x) (FromStr (newBW n) y))) else VBad
           | _, _, _ => VBad end
       | _ => VBad end;
     op_spec := fun_spec (fun a => match a with
       | [n; x; y] => match as_zs x, as_zs y with
           | Some x, Some y => VZ (spec_FromStr_cmp x y) | _, _ => VBad end
       | _ => VBad end) |};
  (* FromStr(ToStr(ws)) on in-range words: ws and the zero words that complete the last byte *)
  {| op_name := "bitword.FromStr/ToStr";
     op_run := fun a => match a with
       | [n; ws] => match as_z n, as_zs ws with
           | Some n, Some ws =>
               if width_ok n && words_inb (Z.to_nat n) ws
               then match ToStr (newBW n) ws with Some s => vzs (FromStr (newBW n) s) | None => VPanic end
               else VBad
           | _, _ => VBad end
       | _ => VBad end;
     op_spec := fun_spec (fun a => match a with
       | [n; ws] => match as_z n, as_zs ws with
           | Some n, Some ws => vzs (spec_FromStr_ToStr (Z.to_nat n) ws) | _, _ => VBad end
       | _ => VBad end) |};
  (* the next three observe behaviour OUTSIDE the domain of the C08 statement (index out of range,
     negative from, words >= 2^n); the generator emits them only when VERIF_C08_WIDE=1 *)
  {| op_name := "bitword.Get/any";
     op_run := fun a => match a with
       | [n; s; i] => match as_z n, as_zs s, as_z i with
           | Some n, Some s, Some i =>
               if width_ok n && str_ok s then voz (Get (newBW n) s i) else VBad
           | _, _, _ => VBad end
       | _ => VBad end;
     op_spec := fun_spec (fun a => match a with
       | [n; s; i] => match as_z n, as_zs s, as_z i with
           | Some n, Some s, Some i => voz (spec_Get_any (Z.to_nat n) s i) | _, _, _ => VBad end
       | _ => VBad end) |};
  {| op_name := "bitword.FirstDiff/any";
     op_run := fun a => match a with
       | [n; x; y; from; end_] => match as_z n, as_zs x, as_zs y, as_z from, as_z end_ with
           | Some n, Some x, Some y, Some from, Some end_ =>
               if width_ok n && str_ok x && str_ok y
               then voz (FirstDiff (newBW n) x y from end_) else VBad
           | _, _, _, _, _ => VBad end
       | _ => VBad end;
     op_spec := fun_spec (fun a => match a with
       | [n; x; y; from; end_] => match as_z n, as_zs x, as_zs y, as_z from, as_z end_ with
           | Some n, Some x, Some y, Some from, Some end_ => voz (spec_FirstDiff_any (Z.to_nat n) x y from end_)
           | _, _, _, _, _ => VBad end
       | _ => VBad end) |};
  {| op_name := "bitword.ToStr/any";
     op_run := fun a => match a with
       | [n; ws] => match as_z n, as_zs ws with
           | Some n, Some ws =>
               if width_ok n && str_ok ws then vozs (ToStr (newBW n) ws) else VBad
           | _, _ => VBad end
       | _ => VBad end;
     op_spec := fun_spec (fun a => match a with
       | [n; ws] => match as_z n, as_zs ws with
           | Some n, Some ws => vzs (spec_ToStr_any (Z.to_nat n) ws) | _, _ => VBad end
       | _ => VBad end) |};
  (* HISTORY ops.  The functions are pure in the model; the executors put the real code through the
     situations in which hidden sharing would show.
     Session/scribble [n, scribble, probes]: FromStr of every string of [scribble]; the caller renders
     and then OVERWRITES each returned word slice; then for every string of [probes]: FromStr, Get at
     every index, ToStr(FromStr).  A FromStr that hands out internal storage is corrupted by the caller. *)
  {| op_name := "bitword.Session/scribble";
     op_run := fun a => match a with
       | [n; ss; ps] => match as_z n, as_zss ss, as_zss ps with
           | Some n, Some ss, Some ps =>
               if width_ok n && forallb str_ok ss && forallb str_ok ps
               then VL [vzss (map (FromStr (newBW n)) ss); VL (map (probe_run n) ps)] else VBad
           | _, _, _ => VBad end
       | _ => VBad end;
     op_spec := fun_spec (fun a => match a with
       | [n; ss; ps] => match as_z n, as_zss ss, as_zss ps with
           | Some n, Some ss, Some ps =>
               VL [vzss (map (spec_FromStr (Z.to_nat n)) ss); VL (map (probe_spec (Z.to_nat n)) ps)]
           | _, _, _ => VBad end
       | _ => VBad end) |};
  (* FromStrs / ToStrs on big batches, compact arguments [n, alphabet, [[index, run], ...]] *)
  {| op_name := "bitword.FromStrs/batch";
     op_run := fun a => match a with
       | [n; al; runs] => match as_z n, as_zss al, as_zss runs with
           | Some n, Some al, Some runs => match expand_runs al runs with
               | Some ss => if width_ok n && forallb str_ok al then vzss (FromStrs (newBW n) ss) else VBad
               | None => VBad end
           | _, _, _ => VBad end
       | _ => VBad end;
     op_spec := fun_spec (fun a => match a with
       | [n; al; runs] => match as_z n, as_zss al, as_zss runs with
           | Some n, Some al, Some runs => match expand_runs al runs with
               | Some ss => vzss (spec_FromStrs (Z.to_nat n) ss) | None => VBad end
           | _, _, _ => VBad end
       | _ => VBad end) |};
  {| op_name := "bitword.ToStrs/batch";
     op_run := fun a => match a with
       | [n; al; runs] => match as_z n, as_zss al, as_zss runs with
           | Some n, Some al, Some runs => match expand_runs al runs with
               | Some wss => if width_ok n && forallb (words_inb (Z.to_nat n)) al
                             then vozss (ToStrs (newBW n) wss) else VBad
               | None => VBad end
           | _, _, _ => VBad end
       | _ => VBad end;
     op_spec := fun_spec (fun a => match a with
       | [n; al; runs] => match as_z n, as_zss al, as_zss runs with
           | Some n, Some al, Some runs => match expand_runs al runs with
               | Some wss => vzss (spec_ToStrs (Z.to_nat n) wss) | None => VBad end
           | _, _, _ => VBad end
       | _ => VBad end) |};
  (* ToStrs over windows [lo, hi) of ONE flat buffer of in-range words (adjacent, overlapping, prefix
     then whole); observed: the strings and the buffer afterwards (ToStrs must not write to it) *)
  {| op_name := "bitword.ToStrs/flat";
     op_run := fun a => match a with
       | [n; flat; wins] => match as_z n, as_zs flat, as_zss wins with
           | Some n, Some flat, Some wins => match cut_windows flat wins with
               | Some wss => if width_ok n && words_inb (Z.to_nat n) flat
                             then match ToStrs (newBW n) wss with
                                  | Some r => VL [vzss r; vzs flat] | None => VPanic end
                             else VBad
               | None => VBad end
           | _, _, _ => VBad end
       | _ => VBad end;
     op_spec := fun_spec (fun a => match a with
       | [n; flat; wins] => match as_z n, as_zs flat, as_zss wins with
           | Some n, Some flat, Some wins => match cut_windows flat wins with
               | Some wss => VL [vzss (spec_ToStrs (Z.to_nat n) wss); vzs flat] | None => VBad end
           | _, _, _ => VBad end
       | _ => VBad end) |};
  (* aliased arguments: b = a[:k] is a leading slice of a in the SAME memory (the executor builds a once and
     slices it); FirstDiff(a, b, from, end) and FirstDiff(b, a, from, end) against the ordinary spec *)
  {| op_name := "bitword.FirstDiff/alias";
     op_run := fun a => match a with
       | [n; s; k; from; end_] => match as_z n, as_zs s, as_z k, as_z from, as_z end_ with
           | Some n, Some s, Some k, Some from, Some end_ =>
               if width_ok n && str_ok s && (0 <=? k) && (k <=? zlen s) && (0 <=? from) && (-1 <=? end_)
               then let b := firstn (Z.to_nat k) s in
                    match FirstDiff (newBW n) s b from end_, FirstDiff (newBW n) b s from end_ with
                    | Some x, Some y => vzs [x; y] | _, _ => VPanic end
               else VBad
           | _, _, _, _, _ => VBad end
       | _ => VBad end;
     op_spec := fun_spec (fun a => match a with
       | [n; s; k; from; end_] => match as_z n, as_zs s, as_z k, as_z from, as_z end_ with
           | Some n, Some s, Some k, Some from, Some end_ =>
               let b := firstn (Z.to_nat k) s in
               vzs [spec_FirstDiff (Z.to_nat n) s b from end_; spec_FirstDiff (Z.to_nat n) b s from end_]
           | _, _, _, _, _ => VBad end
       | _ => VBad end) |};
  (* Session/reuse [n, [ws1, ws2, ...]]: ToStr of each word list out of ONE buffer that the caller re-fills for
     the next call, then ToStrs of all lists out of buffers the caller clears afterwards; the returned strings are
     rendered only at the end (a string that aliases the caller's words changes under it) *)
  {| op_name := "bitword.Session/reuse";
     op_run := fun a => match a with
       | [n; wss] => match as_z n, as_zss wss with
           | Some n, Some wss =>
               if width_ok n && forallb (words_inb (Z.to_nat n)) wss
               then match opt_all (map (ToStr (newBW n)) wss), ToStrs (newBW n) wss with
                    | Some r1, Some r2 => VL [vzss r1; vzss r2] | _, _ => VPanic end
               else VBad
           | _, _ => VBad end
       | _ => VBad end;
     op_spec := fun_spec (fun a => match a with
       | [n; wss] => match as_z n, as_zss wss with
           | Some n, Some wss => VL [vzss (map (spec_ToStr (Z.to_nat n)) wss); vzss (spec_ToStrs (Z.to_nat n) wss)]
           | _, _ => VBad end
       | _ => VBad end) |}
].
