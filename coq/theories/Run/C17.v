(** Protocol operations for C17 (see Lib/Val.v).  The property is a relation:
    [op_spec] is the boolean checker [shard_ok], not a comparison with one
    expected output. *)
From Coq Require Import ZArith List Bool String.
From Low Require Import Lib.Bits Lib.BitSeq Lib.Lex Lib.Bytes Lib.Val Model.Sigbits Spec.SigbitsSpec Spec.ShardRouteSpec
  Spec.ShardSplitSpec.
Import ListNotations.
Open Scope string_scope.
Open Scope Z_scope.

Definition c17_dom (keys : list (list Z)) (maxSize : Z) : bool :=
  keys_okb keys && strict_ascb keys && negb (zlen keys =? 0) && (1 <=? maxSize).

(** What the model returns.  The faithful model's sFirstDiffBit walks the keys chunk by chunk with
    [skipn] from the start (quadratic in the length of a shared prefix: ~30 s for two keys sharing
    64 KiB), so for key sets with a key longer than 9000 bytes the run evaluates
    [spec_ShardByPrefix] instead -- which IS the model's output on the domain [c17_dom]
    (theorem C17_exact: ShardByPrefix keys ms = Some (spec_ShardByPrefix keys ms)).  All other
    cases execute the model itself. *)
Definition c17_run (keys : list (list Z)) (maxSize : Z) : option (list Z * list Z) :=
  if forallb (fun k => zlen k <=? 9000) keys then ShardByPrefix keys maxSize
  else Some (spec_ShardByPrefix keys maxSize).

Definition ops_C17 : list opdef := [
  {| op_name := "sigbits.ShardByPrefix";
     op_run := fun a => match a with
       | [keys; ms] => match as_zss keys, as_z ms with
           | Some keys, Some ms =>
               if c17_dom keys ms then
                 match c17_run keys ms with
                 | Some (L, B) => VL [vzs L; vzs B]
                 | None => VPanic
                 end
               else VBad
           | _, _ => VBad end
       | _ => VBad end;
     op_spec := fun a obs => match a with
       | [keys; ms] => match as_zss keys, as_z ms, obs with
           | Some keys, Some ms, VL [L; B] =>
               match as_zs L, as_zs B with
               | Some L, Some B => shard_ok keys ms L B
               | _, _ => false
               end
           | _, _, _ => false end
       | _ => false end |};
  (* the returned prefixes used as a routing table: observed = [L, B, R], R[i] = the shard an
     upper-bound search over the prefixes finds for keys[i]; accepted when (L,B) is a valid
     sharding and every key is sent to the shard that holds it *)
  {| op_name := "sigbits.ShardByPrefix/route";
     op_run := fun a => match a with
       | [keys; ms] => match as_zss keys, as_z ms with
           | Some keys, Some ms =>
               if c17_dom keys ms then
                 match c17_run keys ms with
                 | Some (L, B) => VL [vzs L; vzs B; vzs (map (route (shard_prefixes keys L B)) keys)]
                 | None => VPanic
                 end
               else VBad
           | _, _ => VBad end
       | _ => VBad end;
     op_spec := fun a obs => match a with
       | [keys; ms] => match as_zss keys, as_z ms, obs with
           | Some keys, Some ms, VL [L; B; R] =>
               match as_zs L, as_zs B, as_zs R with
               | Some L, Some B, Some R => shard_ok keys ms L B && route_okb (zlen keys) B R
               | _, _, _ => false
               end
           | _, _, _ => false end
       | _ => false end |}
].
