(** Protocol operations for C17 (see Lib/Val.v).  The property is a relation:
    [op_spec] is the boolean checker [shard_ok], not a comparison with one
    expected output. *)
From Coq Require Import ZArith List Bool String.
From Low Require Import Lib.Bits Lib.BitSeq Lib.Lex Lib.Bytes Lib.Val Model.Sigbits Spec.SigbitsSpec Spec.ShardRouteSpec
  Spec.ShardSplitSpec Spec.SigbitsSpec16x.
Import ListNotations.
Open Scope string_scope.
Open Scope Z_scope.

Definition c17_dom (keys : list (list Z)) (maxSize : Z) : bool :=
  keys_okb keys && strict_ascb keys && negb (zlen keys =? 0) && (1 <=? maxSize).

(** What the model returns.  The faithful model's sFirstDiffBit walks the keys chunk by chunk with
    [skipn] from the start (quadratic in the length of a shared prefix: ~30 s for two keys sharing
    64 KiB), and [dfs] reads its tables with [nthZ] (quadratic in the number of keys), so for key sets
    with a key longer than 9000 bytes or with more than 3000 keys the run evaluates
    [spec_ShardByPrefix] instead -- which IS the model's output on the domain [c17_dom]
    (theorem C17_exact: ShardByPrefix keys ms = Some (spec_ShardByPrefix keys ms)).  All other
    cases execute the model itself. *)
Definition c17_run (keys : list (list Z)) (maxSize : Z) : option (list Z * list Z) :=
  if forallb (fun k => zlen k <=? 9000) keys && (zlen keys <=? 3000) then ShardByPrefix keys maxSize
  else Some (spec_ShardByPrefix keys maxSize).

(** one call on given keys, as a value *)
Definition c17_call (keys : list (list Z)) (ms : Z) : val :=
  if c17_dom keys ms then
    match c17_run keys ms with
    | Some (L, B) => VL [vzs L; vzs B]
    | None => VPanic
    end
  else VBad.

Definition c17_call_ok (keys : list (list Z)) (ms : Z) (obs : val) : bool :=
  match obs with
  | VL [L; B] => match as_zs L, as_zs B with
                 | Some L, Some B => shard_ok keys ms L B
                 | _, _ => false
                 end
  | _ => false
  end.

(** a history on ONE key buffer: step [keys_i; ms_i; kind_i] refills the buffer in place with
    keys_i (all of one length) and then calls ShardByPrefix (kind 0; observed (L,B)) or only
    sigbits.New (kind 1; nothing observed: []) *)
Fixpoint c17_hist_run (steps : list val) : option (list val) :=
  match steps with
  | [] => Some []
  | VL [keys; ms; kind] :: t =>
      match as_zss keys, as_z ms, as_z kind, c17_hist_run t with
      | Some keys, Some ms, Some kind, Some r =>
          if kind =? 0 then
            match c17_call keys ms with VBad => None | v => Some (v :: r) end
          else if c17_dom keys ms then Some (VL [] :: r) else None
      | _, _, _, _ => None
      end
  | _ => None
  end.

Fixpoint c17_hist_ok (steps obs : list val) : bool :=
  match steps, obs with
  | [], [] => true
  | VL [keys; ms; kind] :: t, o :: ot =>
      match as_zss keys, as_z ms, as_z kind with
      | Some keys, Some ms, Some kind =>
          (if kind =? 0 then c17_call_ok keys ms o else match o with VL [] => true | _ => false end)
          && c17_hist_ok t ot
      | _, _, _ => false
      end
  | _, _ => false
  end.

Definition ops_C17 : list opdef := [
  {| op_name := "sigbits.ShardByPrefix";
     op_run := fun a => match a with
       | [keys; ms] => match as_zss keys, as_z ms with
           | Some keys, Some ms =>
               if c17_dom keys ms then
                 match c17_run keys ms with
                 | Some (L, B) => VL [vzs L; vzs B]
                 | None => VPanic
                 end
               else VBad
           | _, _ => VBad end
       | _ => VBad end;
     op_spec := fun a obs => match a with
       | [keys; ms] => match as_zss keys, as_z ms, obs with
           | Some keys, Some ms, VL [L; B] =>
               match as_zs L, as_zs B with
               | Some L, Some B => shard_ok keys ms L B
               | _, _ => false
               end
           | _, _, _ => false end
       | _ => false end |};
  (* the returned prefixes used as a routing table: observed = [L, B, R], R[i] = the shard an
     upper-bound search over the prefixes finds for keys[i]; accepted when (L,B) is a valid
     sharding and every key is sent to the shard that holds it *)
  {| op_name := "sigbits.ShardByPrefix/route";
     op_run := fun a => match a with
       | [keys; ms] => match as_zss keys, as_z ms with
           | Some keys, Some ms =>
               if c17_dom keys ms then
                 match c17_run keys ms with
                 | Some (L, B) => VL [vzs L; vzs B; vzs (map (route (shard_prefixes keys L B)) keys)]
                 | None => VPanic
                 end
               else VBad
           | _, _ => VBad end
       | _ => VBad end;
     op_spec := fun a obs => match a with
       | [keys; ms] => match as_zss keys, as_z ms, obs with
           | Some keys, Some ms, VL [L; B; R] =>
               match as_zs L, as_zs B, as_zs R with
               | Some L, Some B, Some R => shard_ok keys ms L B && route_okb (zlen keys) B R
               | _, _, _ => false
               end
           | _, _, _ => false end
       | _ => false end |};
  (* a LARGE key set described compactly: keys = prefix + w-byte big-endian counter c0..c0+n-1
     (expanded on both sides), then one call *)
  {| op_name := "sigbits.ShardByPrefix/counter";
     op_run := fun a => match a with
       | [p; w; c0; n; ms] => match as_zs p, as_z w, as_z c0, as_z n, as_z ms with
           | Some p, Some w, Some c0, Some n, Some ms =>
               if (0 <=? w) && (0 <=? c0) && (0 <=? n) && (c0 + n <=? 256 ^ w)
               then c17_call (counter_keys p w c0 n) ms else VBad
           | _, _, _, _, _ => VBad end
       | _ => VBad end;
     op_spec := fun a obs => match a with
       | [p; w; c0; n; ms] => match as_zs p, as_z w, as_z c0, as_z n, as_z ms with
           | Some p, Some w, Some c0, Some n, Some ms => c17_call_ok (counter_keys p w c0 n) ms obs
           | _, _, _, _, _ => false end
       | _ => false end |};
  (* ONE []string buffer, refilled in place between the calls *)
  {| op_name := "sigbits.ShardByPrefix/reuse";
     op_run := fun a => match a with
       | [VL steps] => match c17_hist_run steps with Some r => VL r | None => VBad end
       | _ => VBad end;
     op_spec := fun a obs => match a, obs with
       | [VL steps], VL os => c17_hist_ok steps os
       | _, _ => false end |}
].
