(** Helpers shared by the protocol operations of C06 and C07 (see Lib/Val.v). *)
From Coq Require Import ZArith List Bool String.
From Low Require Import Lib.BitSeq Lib.Bytes Lib.Val Model.Pbcmpl Spec.PbcmplSpec.
Import ListNotations.
Open Scope Z_scope.

Definition v_err (e : option perr) : val := VZ (errclass e).

Definition v_step (s : Z * list Z * option perr * list Z * Z) : val :=
  let '(n, ver, err, payload, consumed) := s in
  VL [VZ n; vzs ver; v_err err; vzs payload; VZ consumed].

Definition term_of (tkind : Z) (with_last : bool) : terminal :=
  {| t_err := if tkind =? 0 then EEOF else EInjected; t_with_last := with_last |}.

Definition all_pos (l : list Z) : bool := forallb (fun k => 0 <? k) l.
Definition kind_ok (k : Z) : bool := (0 <=? k) && (k <=? 2).

(** [hasver, ver, payload] *)
Definition as_msg (v : val) : option (option (list Z) * list Z) :=
  match v with
  | VL [hv; ver; p] =>
      match as_bool hv, as_zs ver, as_zs p with
      | Some hv, Some ver, Some p =>
          if bytes_okb ver && bytes_okb p then Some (if hv then Some ver else None, p) else None
      | _, _, _ => None
      end
  | _ => None
  end.

(** [[k, fail], ...] *)
Definition as_script (v : val) : option (list (Z * bool)) :=
  match v with
  | VL l => opt_all (map (fun e => match e with
                                   | VL [k; f] => match as_z k, as_bool f with
                                                  | Some k, Some f => Some (k, f) | _, _ => None end
                                   | _ => None end) l)
  | _ => None
  end.

(** Marshal result: [n, errclass, bytes emitted, Size(msg), HeaderSize(msg)] *)
Definition v_marshal_model (kind : Z) (script : list (Z * bool)) (m : option (list Z) * list Z) : val :=
  match s_Marshal kind script (snd m) (fst m) with
  | None => VPanic
  | Some (n, err, (_, out)) =>
      VL [VZ n; v_err err; vzs out; VZ (SizeOf (k_size kind) (snd m)); VZ (HeaderSizeOf (snd m))]
  end.

Definition v_marshal_spec (kind : Z) (script : list (Z * bool)) (m : option (list Z) * list Z) : val :=
  match spec_Marshal (k_enc kind (snd m)) (fst m) script with
  | None => VPanic
  | Some (n, err, out, sz, hsz) => VL [VZ n; v_err err; vzs out; VZ sz; VZ hsz]
  end.

Definition v_readheader (r : Z * option perr * list Z * Z * Z) : val :=
  let '(n, err, ver, hs, bs) := r in VL [VZ n; v_err err; vzs ver; VZ hs; VZ bs].

Definition v_readheader_model (r : creader) : val :=
  match c_ReadHeader r with
  | None => VPanic
  | Some (n, None, err, _) => v_readheader (n, err, [], 0, 0)
  | Some (n, Some h, err, _) => v_readheader (n, err, GetVersion h, GetHeaderSize h, GetBodySize h)
  end.

Definition v_stream_model (kind : Z) (r : creader) : val :=
  match c_Stream kind r with
  | None => VPanic
  | Some (steps, r') => VL [VL (map v_step steps); vzs (rd_bytes r')]
  end.

Definition v_stream_spec (kind : Z) (eof32 : perr) (s : list Z) (t : terminal) : val :=
  let '(steps, lft) := spec_Stream (k_dec kind) eof32 payload_opt s t in
  VL [VL (map v_step steps); vzs lft].
