(** Protocol operations for C06 (see Lib/Val.v, Run/PbcmplOps.v). *)
From Coq Require Import ZArith List Bool String.
From Low Require Import Lib.BitSeq Lib.Bytes Lib.Val Model.Pbcmpl Model.PbcmplWalk Spec.PbcmplSpec Spec.PbcmplWalkSpec
  Run.PbcmplOps Run.PbcmplWalkOps Run.PbcmplSessionOps.
Import ListNotations.
Open Scope string_scope.
Open Scope Z_scope.

(** the model side of a round trip: marshal every message into one buffer with a
    writer that accepts everything, then read the buffer back frame by frame *)
Definition roundtrip_model (kind : Z) (ms : list (option (list Z) * list Z)) (pat : list Z) (wl : bool) : val :=
  let rs := map (fun m => s_Marshal kind [] (snd m) (fst m)) ms in
  match opt_all rs with
  | None => VPanic
  | Some rs =>
      let wire := List.concat (map (fun r => snd (snd r)) rs) in
      let per := map (fun mr => let '(m, (n, err, _)) := mr in
                        VL [VZ n; v_err err; VZ (SizeOf (k_size kind) (snd m)); VZ (HeaderSizeOf (snd m))])
                     (combine ms rs) in
      match c_Stream kind (chunks_of pat wire, term_of 0 wl) with
      | None => VPanic
      | Some (steps, r') => VL [vzs wire; VL per; VL (map v_step steps); vzs (rd_bytes r')]
      end
  end.

Definition roundtrip_spec (kind : Z) (ms : list (option (list Z) * list Z)) : val :=
  let enc := k_enc kind in
  VL [vzs (wire_of enc ms);
      VL (map (fun m => let n := zlen (frame_of enc m) in VL [VZ n; VZ 0; VZ n; VZ 32]) ms);
      VL (map v_step (frames_steps enc 0 ms));
      vzs []].

Definition c06_kind_ok (k : Z) : bool := (k =? 0) || (k =? 1).

Definition ops_C06 : list opdef := [
  (* [kind, [hasver, ver, payload]] -> [n, errclass, bytes written, Size, HeaderSize] *)
  {| op_name := "pbcmpl.Marshal";
     op_run := fun a => match a with
       | [k; m] => match as_z k, as_msg m with
           | Some k, Some m => if c06_kind_ok k && (zlen (ver_of (fst m)) <=? 16) then v_marshal_model k [] m else VBad
           | _, _ => VBad end
       | _ => VBad end;
     op_spec := fun_spec (fun a => match a with
       | [k; m] => match as_z k, as_msg m with
           | Some k, Some m => v_marshal_spec k [] m
           | _, _ => VBad end
       | _ => VBad end) |};
  (* [kind, [msg, ...], chunk pattern, eof with last chunk] ->
     [wire, [[n, errclass, Size, HeaderSize] per Marshal], [[n, ver, errclass, payload, consumed] per Unmarshal], left] *)
  {| op_name := "pbcmpl.Roundtrip";
     op_run := fun a => match a with
       | [k; ms; pat; wl] => match as_z k, as_list ms, as_zs pat, as_bool wl with
           | Some k, Some ms, Some pat, Some wl =>
               match opt_all (map as_msg ms) with
               | Some ms => if c06_kind_ok k && forallb msg_ok ms && all_pos pat then roundtrip_model k ms pat wl else VBad
               | None => VBad end
           | _, _, _, _ => VBad end
       | _ => VBad end;
     op_spec := fun_spec (fun a => match a with
       | [k; ms; pat; wl] => match as_z k, as_list ms with
           | Some k, Some ms =>
               match opt_all (map as_msg ms) with
               | Some ms => roundtrip_spec k ms
               | None => VBad end
           | _, _ => VBad end
       | _ => VBad end) |};
  (* [kind, msg, chunk pattern] -> ReadHeader on the marshaled frame: [n, errclass, ver, hsize, bsize] *)
  {| op_name := "pbcmpl.ReadHeader";
     op_run := fun a => match a with
       | [k; m; pat] => match as_z k, as_msg m, as_zs pat with
           | Some k, Some m, Some pat =>
               if c06_kind_ok k && msg_ok m && all_pos pat then
                 match s_Marshal k [] (snd m) (fst m) with
                 | None => VPanic
                 | Some (_, _, (_, wire)) => v_readheader_model (chunks_of pat wire, term_of 0 false)
                 end
               else VBad
           | _, _, _ => VBad end
       | _ => VBad end;
     op_spec := fun_spec (fun a => match a with
       | [k; m; pat] => match as_z k, as_msg m with
           | Some k, Some m => v_readheader (32, None, ver_of (fst m), 32, zlen (k_enc k (snd m)))
           | _, _ => VBad end
       | _ => VBad end) |};
  (* widening: [kind, [msg, ...], chunk pattern, eof with last chunk, positions]: as pbcmpl.Roundtrip, but the
     reader additionally returns (0, nil) — an empty chunk — before the chunks at the given positions *)
  {| op_name := "pbcmpl.Roundtrip/empties";
     op_run := fun a => match a with
       | [k; ms; pat; wl; pos] => match as_z k, as_list ms, as_zs pat, as_bool wl, as_zs pos with
           | Some k, Some ms, Some pat, Some wl, Some pos =>
               match opt_all (map as_msg ms) with
               | Some ms =>
                   if c06_kind_ok k && forallb msg_ok ms && all_pos pat && all_nonneg pos then
                     match model_wire k ms with
                     | None => VPanic
                     | Some wire =>
                         match c_Stream k (insert_empties pos (chunks_of pat wire), term_of 0 wl) with
                         | None => VPanic
                         | Some (steps, r') => VL [vzs wire; VL (map v_step steps); vzs (rd_bytes r')]
                         end
                     end
                   else VBad
               | None => VBad end
           | _, _, _, _, _ => VBad end
       | _ => VBad end;
     op_spec := fun_spec (fun a => match a with
       | [k; ms; pat; wl; pos] => match as_z k, as_list ms with
           | Some k, Some ms =>
               match opt_all (map as_msg ms) with
               | Some ms => VL [vzs (wire_of (k_enc k) ms); VL (map v_step (frames_steps (k_enc k) 0 ms)); vzs []]
               | None => VBad end
           | _, _ => VBad end
       | _ => VBad end) |};
  (* histories: [kind, [[[msg, ...], chunk pattern, eof with last chunk, cut], ...]]: several "connections" in ONE
     process, one after the other; each marshals its messages into a buffer, keeps the first [cut] bytes (all
     when cut < 0) and reads with Unmarshal until the first error -> per connection what pbcmpl.Unmarshal/stream
     reports.  A dropped connection must not influence the next one. *)
  {| op_name := "pbcmpl.Roundtrip/session";
     op_run := fun a => match a with
       | [k; cs] => match as_z k, as_list cs with
           | Some k, Some cs =>
               match opt_all (map as_conn cs) with
               | Some cs => if c06_kind_ok k && forallb conn_ok cs then VL (map (conn_model k) cs) else VBad
               | None => VBad end
           | _, _ => VBad end
       | _ => VBad end;
     op_spec := fun a obs => match a with
       | [k; cs] => match as_z k, as_list cs, obs with
           | Some k, Some cs, VL os =>
               match opt_all (map as_conn cs) with
               | Some cs => all2 (conn_spec k) cs os
               | None => false end
           | _, _, _ => false end
       | _ => false end |};
  (* [kind, [msg, ...], chunk pattern, bufio size]: as pbcmpl.Walk/frames over bufio.NewReaderSize(reader, size);
     every Header is HELD and inspected only after the whole stream was walked:
     [[step, ...], [[ver, hsize, bsize] per held header]] *)
  {| op_name := "pbcmpl.Walk/bufio";
     op_run := fun a => match a with
       | [k; ms; pat; bsz] => match as_z k, as_list ms, as_zs pat, as_z bsz with
           | Some k, Some ms, Some pat, Some bsz =>
               match opt_all (map as_msg ms) with
               | Some ms =>
                   if c06_kind_ok k && forallb msg_ok ms && forallb (walk_body_ok k) ms && all_pos pat && (0 <=? bsz) then
                     match model_wire k ms with
                     | None => VPanic
                     | Some wire =>
                         match c_Walk (chunks_of pat wire, term_of 0 false) with
                         | None => VPanic
                         | Some (steps, _) => v_walkheld steps
                         end
                     end
                   else VBad
               | None => VBad end
           | _, _, _, _ => VBad end
       | _ => VBad end;
     op_spec := fun_spec (fun a => match a with
       | [k; ms; pat; bsz] => match as_z k, as_list ms with
           | Some k, Some ms =>
               match opt_all (map as_msg ms) with
               | Some ms => v_walkheld (frames_walk (k_enc k) ms)
               | None => VBad end
           | _, _ => VBad end
       | _ => VBad end) |};
  (* [kind, [[hasver, ver, count, byte], ...], chunk pattern, eof with last chunk]: pbcmpl.Roundtrip for
     payloads of [count] times one byte (bodies above 1 MiB), byte strings in run-length form *)
  {| op_name := "pbcmpl.Roundtrip/big";
     op_run := fun a => match a with
       | [k; ms; pat; wl] => match as_z k, as_list ms, as_zs pat, as_bool wl with
           | Some k, Some ms, Some pat, Some wl =>
               match opt_all (map as_bigmsg ms) with
               | Some ms => if c06_kind_ok k && forallb bigmsg_ok ms && all_pos pat then big_roundtrip k ms else VBad
               | None => VBad end
           | _, _, _, _ => VBad end
       | _ => VBad end;
     op_spec := fun_spec (fun a => match a with
       | [k; ms; pat; wl] => match as_z k, as_list ms with
           | Some k, Some ms =>
               match opt_all (map as_bigmsg ms) with
               | Some ms => big_roundtrip k ms
               | None => VBad end
           | _, _ => VBad end
       | _ => VBad end) |};
  (* widening: [kind, [msg, ...], chunk pattern, eof with last chunk] -> the frames are marshalled into one
     buffer, which is then walked with ReadHeader + io.ReadFull (no decoding):
     [[[n, errclass, ver, hsize, bsize, body bytes, refused] per step], left] *)
  {| op_name := "pbcmpl.Walk/frames";
     op_run := fun a => match a with
       | [k; ms; pat; wl] => match as_z k, as_list ms, as_zs pat, as_bool wl with
           | Some k, Some ms, Some pat, Some wl =>
               match opt_all (map as_msg ms) with
               | Some ms =>
                   if c06_kind_ok k && forallb msg_ok ms && forallb (walk_body_ok k) ms && all_pos pat then
                     match model_wire k ms with
                     | None => VPanic
                     | Some wire => v_walk_model (chunks_of pat wire, term_of 0 wl)
                     end
                   else VBad
               | None => VBad end
           | _, _, _, _ => VBad end
       | _ => VBad end;
     op_spec := fun_spec (fun a => match a with
       | [k; ms; pat; wl] => match as_z k, as_list ms with
           | Some k, Some ms =>
               match opt_all (map as_msg ms) with
               | Some ms => VL [VL (map v_wstep (frames_walk (k_enc k) ms)); vzs []]
               | None => VBad end
           | _, _ => VBad end
       | _ => VBad end) |}
].
