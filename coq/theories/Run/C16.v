(** Protocol operations for C16 (see Lib/Val.v). *)
From Coq Require Import ZArith List Bool String.
From Low Require Import Lib.Bits Lib.BitSeq Lib.Lex Lib.Bytes Lib.Val Model.Sigbits Model.SigbitsQueries Spec.SigbitsSpec Spec.SigbitsSpec16x.
Import ListNotations.
Open Scope string_scope.
Open Scope Z_scope.

Definition vpairZL (p : Z * list Z) : val := VL [VZ (fst p); vzs (snd p)].

(** the domain of the CountPrefixes statement *)
Definition c16_cp_dom (keys : list (list Z)) (s e m : Z) : bool :=
  keys_okb keys && strict_ascb keys && (0 <=? s) && (s + 2 <=? e) && (e <=? zlen keys) && (1 <=? m).

(** a query triple [s,e,m] *)
Definition as_q (v : val) : option (Z * Z * Z) :=
  match v with VL [VZ s; VZ e; VZ m] => Some (s, e, m) | _ => None end.
Fixpoint as_qs_aux (l : list val) : option (list (Z * Z * Z)) :=
  match l with
  | [] => Some []
  | v :: t => match as_q v, as_qs_aux t with Some q, Some qs => Some (q :: qs) | _, _ => None end
  end.
Definition as_qs (v : val) : option (list (Z * Z * Z)) :=
  match v with VL l => as_qs_aux l | _ => None end.

(** a session step: [0,s,e,m] CountPrefixes, [1,maxSize] ShardByPrefix, [2] FirstDiffBits,
    [3,n,s,e,m] the same CountPrefixes n times (last answer) *)
Definition as_step (v : val) : option (sstep * spec_step) :=
  match v with
  | VL [VZ 0; VZ s; VZ e; VZ m] => Some (QCount s e m, SCount s e m)
  | VL [VZ 1; VZ ms] => Some (QShard ms, SShard ms)
  | VL [VZ 2] => Some (QFdb, SFdb)
  | VL [VZ 3; VZ n; VZ s; VZ e; VZ m] => Some (QRepeat n s e m, SRepeat n s e m)
  | _ => None
  end.
Fixpoint as_steps_aux (l : list val) : option (list (sstep * spec_step)) :=
  match l with
  | [] => Some []
  | v :: t => match as_step v, as_steps_aux t with Some q, Some qs => Some (q :: qs) | _, _ => None end
  end.
Definition as_steps (v : val) : option (list (sstep * spec_step)) :=
  match v with VL l => as_steps_aux l | _ => None end.
Definition c16_step_dom (keys : list (list Z)) (st : sstep) : bool :=
  match st with
  | QCount s e m => c16_cp_dom keys s e m
  | QShard ms => 1 <=? ms
  | QFdb => true
  | QRepeat n s e m => (1 <=? n) && c16_cp_dom keys s e m
  end.

(** the run on a counter-described key set *)
Definition c16_counter_run (a : list val) : val :=
  match a with
  | [p; w; c0; n; s; e; m] =>
      match as_zs p, as_z w, as_z c0, as_z n, as_z s, as_z e, as_z m with
      | Some p, Some w, Some c0, Some n, Some s, Some e, Some m =>
          if (0 <=? w) && (0 <=? c0) && (0 <=? n) && (c0 + n <=? 256 ^ w) then
            let keys := counter_keys p w c0 n in
            if c16_cp_dom keys s e m then
              match New keys with
              | Some sb => match CountPrefixes sb s e m with Some r => vpairZL r | None => VPanic end
              | None => VPanic
              end
            else VBad
          else VBad
      | _, _, _, _, _, _, _ => VBad end
  | _ => VBad end.

Definition c16_counter_spec (f : list (list Z) -> Z -> Z -> Z -> Z * list Z) (a : list val) : val :=
  match a with
  | [p; w; c0; n; s; e; m] =>
      match as_zs p, as_z w, as_z c0, as_z n, as_z s, as_z e, as_z m with
      | Some p, Some w, Some c0, Some n, Some s, Some e, Some m =>
          vpairZL (f (counter_keys p w c0 n) s e m)
      | _, _, _, _, _, _, _ => VBad end
  | _ => VBad end.

Definition ops_C16 : list opdef := [
  (* sigbits.FirstDiffBits(keys), keys non-empty *)
  {| op_name := "sigbits.FirstDiffBits";
     op_run := fun a => match a with
       | [keys] => match as_zss keys with
           | Some keys =>
               if keys_okb keys && negb (zlen keys =? 0) then
                 match FirstDiffBits keys with Some ds => vzs ds | None => VPanic end
               else VBad
           | None => VBad end
       | _ => VBad end;
     op_spec := fun_spec (fun a => match a with
       | [keys] => match as_zss keys with
           | Some keys => vzs (spec_FirstDiffBits keys)
           | None => VBad end
       | _ => VBad end) |};
  (* sigbits.New(keys).CountPrefixes(s, e, m) *)
  {| op_name := "sigbits.CountPrefixes";
     op_run := fun a => match a with
       | [keys; s; e; m] => match as_zss keys, as_z s, as_z e, as_z m with
           | Some keys, Some s, Some e, Some m =>
               if c16_cp_dom keys s e m then
                 match New keys with
                 | Some sb => match CountPrefixes sb s e m with Some p => vpairZL p | None => VPanic end
                 | None => VPanic
                 end
               else VBad
           | _, _, _, _ => VBad end
       | _ => VBad end;
     op_spec := fun_spec (fun a => match a with
       | [keys; s; e; m] => match as_zss keys, as_z s, as_z e, as_z m with
           | Some keys, Some s, Some e, Some m => vpairZL (spec_CountPrefixes keys s e m)
           | _, _, _, _ => VBad end
       | _ => VBad end) |};
  (* sigbits.New(keys).CountPrefixes(s, s+1, m): a range of one key (keys in any order) *)
  {| op_name := "sigbits.CountPrefixes/single";
     op_run := fun a => match a with
       | [keys; s; m] => match as_zss keys, as_z s, as_z m with
           | Some keys, Some s, Some m =>
               if keys_okb keys && (0 <=? s) && (s <? zlen keys) && (1 <=? m) then
                 match New keys with
                 | Some sb => match CountPrefixes sb s (s + 1) m with Some p => vpairZL p | None => VPanic end
                 | None => VPanic
                 end
               else VBad
           | _, _, _ => VBad end
       | _ => VBad end;
     op_spec := fun_spec (fun a => match a with
       | [keys; s; m] => match as_z m with
           | Some m => vpairZL (spec_CountPrefixes_single m)
           | None => VBad end
       | _ => VBad end) |};
  (* keys = prefix + w-byte big-endian counter c0..c0+n-1; New(keys).CountPrefixes(s, e, m); naive oracle *)
  {| op_name := "sigbits.CountPrefixes/counter";
     op_run := c16_counter_run;
     op_spec := fun_spec (c16_counter_spec spec_CountPrefixes) |};
  (* the same for key sets too large for the quadratic naive oracle: the linear one, proved equal *)
  {| op_name := "sigbits.CountPrefixes/counter-big";
     op_run := c16_counter_run;
     op_spec := fun_spec (c16_counter_spec spec_CountPrefixes_fast) |};
  (* sb := New(keys); a list of CountPrefixes queries on the SAME object; observed: the answers, and 1 when
     the object's precomputed differences still equal FirstDiffBits(keys) afterwards *)
  {| op_name := "sigbits.SigBits/queries";
     op_run := fun a => match a with
       | [keys; qs] => match as_zss keys, as_qs qs with
           | Some keys, Some qs =>
               if forallb (fun q => match q with (s, e, m) => c16_cp_dom keys s e m end) qs
                  && keys_okb keys && negb (zlen keys =? 0) then
                 match New keys with
                 | Some sb => match run_queries sb qs with
                              | Some rs => VL [VL (map vpairZL rs); VZ 1]
                              | None => VPanic end
                 | None => VPanic
                 end
               else VBad
           | _, _ => VBad end
       | _ => VBad end;
     op_spec := fun_spec (fun a => match a with
       | [keys; qs] => match as_zss keys, as_qs qs with
           | Some keys, Some qs => VL [VL (map vpairZL (spec_queries keys qs)); VZ 1]
           | _, _ => VBad end
       | _ => VBad end) |};
  (* sb := New(keys); a list of steps on that object and on the SAME key slice: sb.CountPrefixes,
     ShardByPrefix(keys, maxSize) (result not observed), FirstDiffBits(keys); then the state flag *)
  {| op_name := "sigbits.SigBits/session";
     op_run := fun a => match a with
       | [keys; steps] => match as_zss keys, as_steps steps with
           | Some keys, Some steps =>
               if forallb (fun st => c16_step_dom keys (fst st)) steps
                  && keys_okb keys && strict_ascb keys && negb (zlen keys =? 0) then
                 match New keys with
                 | Some sb => match run_session keys sb (map fst steps) with
                              | Some rs => VL [VL (map vpairZL rs); VZ 1]
                              | None => VPanic end
                 | None => VPanic
                 end
               else VBad
           | _, _ => VBad end
       | _ => VBad end;
     op_spec := fun_spec (fun a => match a with
       | [keys; steps] => match as_zss keys, as_steps steps with
           | Some keys, Some steps => VL [VL (map vpairZL (spec_session keys (map snd steps))); VZ 1]
           | _, _ => VBad end
       | _ => VBad end) |}
].
