(** Protocol operations for C16 (see Lib/Val.v). *)
From Coq Require Import ZArith List Bool String.
From Low Require Import Lib.Bits Lib.BitSeq Lib.Lex Lib.Bytes Lib.Val Model.Sigbits Spec.SigbitsSpec Spec.SigbitsSpec16x.
Import ListNotations.
Open Scope string_scope.
Open Scope Z_scope.

Definition vpairZL (p : Z * list Z) : val := VL [VZ (fst p); vzs (snd p)].

(** the domain of the CountPrefixes statement *)
Definition c16_cp_dom (keys : list (list Z)) (s e m : Z) : bool :=
  keys_okb keys && strict_ascb keys && (0 <=? s) && (s + 2 <=? e) && (e <=? zlen keys) && (1 <=? m).

Definition ops_C16 : list opdef := [
  (* sigbits.FirstDiffBits(keys), keys non-empty *)
  {| op_name := "sigbits.FirstDiffBits";
     op_run := fun a => match a with
       | [keys] => match as_zss keys with
           | Some keys =>
               if keys_okb keys && negb (zlen keys =? 0) then
                 match FirstDiffBits keys with Some ds => vzs ds | None => VPanic end
               else VBad
           | None => VBad end
       | _ => VBad end;
     op_spec := fun_spec (fun a => match a with
       | [keys] => match as_zss keys with
           | Some keys => vzs (spec_FirstDiffBits keys)
           | None => VBad end
       | _ => VBad end) |};
  (* sigbits.New(keys).CountPrefixes(s, e, m) *)
  {| op_name := "sigbits.CountPrefixes";
     op_run := fun a => match a with
       | [keys; s; e; m] => match as_zss keys, as_z s, as_z e, as_z m with
           | Some keys, Some s, Some e, Some m =>
               if c16_cp_dom keys s e m then
                 match New keys with
                 | Some sb => match CountPrefixes sb s e m with Some p => vpairZL p | None => VPanic end
                 | None => VPanic
                 end
               else VBad
           | _, _, _, _ => VBad end
       | _ => VBad end;
     op_spec := fun_spec (fun a => match a with
       | [keys; s; e; m] => match as_zss keys, as_z s, as_z e, as_z m with
           | Some keys, Some s, Some e, Some m => vpairZL (spec_CountPrefixes keys s e m)
           | _, _, _, _ => VBad end
       | _ => VBad end) |};
  (* sigbits.New(keys).CountPrefixes(s, s+1, m): a range of one key (keys in any order) *)
  {| op_name := "sigbits.CountPrefixes/single";
     op_run := fun a => match a with
       | [keys; s; m] => match as_zss keys, as_z s, as_z m with
           | Some keys, Some s, Some m =>
               if keys_okb keys && (0 <=? s) && (s <? zlen keys) && (1 <=? m) then
                 match New keys with
                 | Some sb => match CountPrefixes sb s (s + 1) m with Some p => vpairZL p | None => VPanic end
                 | None => VPanic
                 end
               else VBad
           | _, _, _ => VBad end
       | _ => VBad end;
     op_spec := fun_spec (fun a => match a with
       | [keys; s; m] => match as_z m with
           | Some m => vpairZL (spec_CountPrefixes_single m)
           | None => VBad end
       | _ => VBad end) |}
].
