(** Protocol operations for C11 (see Lib/Val.v).
    Domain of every op: 0 <= from < 2^31 (an int32), 0 <= w <= 32 (w = int32(to-from) resp.
    the height), every byte in [0,256), and either from + w + 7 < 2^31 (no int32 overflow)
    or the start is at/beyond the end of the string (8*len(s) <= from; then from + w may
    wrap negative, as PathOf's own frombit+height does near MaxInt32). *)
From Coq Require Import ZArith List Bool String.
From Low Require Import Lib.MachInt Lib.Bits Lib.BitSeq Lib.Bytes Lib.Val Model.BmtreePath Model.BmtreePathStr Model.FromStr32 Spec.FromStr32Spec Spec.PathsOfSortedSpec.
Import ListNotations.
Open Scope string_scope.
Open Scope Z_scope.

Definition c11_dom (from w : Z) : bool :=
  (0 <=? from) && (0 <=? w) && (w <=? 32) && (from + w + 7 <? 2^31).
(* one string *)
Definition c11_dom1 (s : list Z) (from w : Z) : bool :=
  (0 <=? from) && (from <? 2^31) && (0 <=? w) && (w <=? 32) &&
  ((from + w + 7 <? 2^31) || (8 * zlen s <=? from)).
(* a key list *)
Definition c11_domk (keys : list (list Z)) (from w : Z) : bool :=
  (0 <=? from) && (from <? 2^31) && (0 <=? w) && (w <=? 32) &&
  forallb (fun s => (from + w + 7 <? 2^31) || (8 * zlen s <=? from)) keys.

(* compact form of long key lists: an alphabet of keys and runs [index, count] *)
Definition expand_runs (alpha : list (list Z)) (runs : list (list Z)) : option (list (list Z)) :=
  if forallb (fun r => match r with
                       | [i; c] => (0 <=? i) && (i <? zlen alpha) && (0 <=? c) && (c <=? 10000)
                       | _ => false end) runs
  then Some (flat_map (fun r => match r with
                                | [i; c] => repeat (nth (Z.to_nat i) alpha []) (Z.to_nat c)
                                | _ => [] end) runs)
  else None.
(* run-length encoding of a result: [[value, count], ...] *)
Fixpoint rle_from (x c : Z) (l : list Z) : list (list Z) :=
  match l with
  | [] => [[x; c]]
  | y :: t => if y =? x then rle_from x (c + 1) t else [x; c] :: rle_from y 1 t
  end.
Definition rle (l : list Z) : list (list Z) := match l with [] => [] | x :: t => rle_from x 1 t end.

(* a huge string in compact form: pattern P repeated n times, then the tail T *)
Definition big_len (P : list Z) (n : Z) (T : list Z) : Z := zlen P * n + zlen T.
Definition big_byte (P : list Z) (n : Z) (T : list Z) (j : Z) : Z :=
  if j <? zlen P * n then nth (Z.to_nat (j mod zlen P)) P 0 else nth (Z.to_nat (j - zlen P * n)) T 0.
(* the at most 8 bytes starting at byte p *)
Definition big_window (P : list Z) (n : Z) (T : list Z) (p : Z) : list Z :=
  map (fun d => big_byte P n T (p + Z.of_nat d)) (seq 0 (Z.to_nat (Z.min 8 (big_len P n T - p)))).

Definition ops_C11 : list opdef := [
  {| op_name := "bitmap.FromStr32";
     op_run := fun a => match a with
       | [s; from; to] => match as_zs s, as_z from, as_z to with
           | Some s, Some from, Some to =>
               if c11_dom1 s from (i32 (to - from)) && (- 2^31 <=? to) && (to <? 2^31) && bytes_okb s then
                 match FromStr32 s from to with Some (k, v) => VL [VZ k; VZ v] | None => VPanic end
               else VBad
           | _, _, _ => VBad end
       | _ => VBad end;
     op_spec := fun_spec (fun a => match a with
       | [s; from; to] => match as_zs s, as_z from, as_z to with
           | Some s, Some from, Some to =>
               let r := spec_FromStr32 s from (i32 (to - from)) in VL [VZ (fst r); VZ (snd r)]
           | _, _, _ => VBad end
       | _ => VBad end) |};
  {| op_name := "bmtree.PathOf";
     op_run := fun a => match a with
       | [s; from; h] => match as_zs s, as_z from, as_z h with
           | Some s, Some from, Some h =>
               if c11_dom1 s from h && bytes_okb s then
                 match PathOf s from h with Some p => VZ p | None => VPanic end
               else VBad
           | _, _, _ => VBad end
       | _ => VBad end;
     op_spec := fun_spec (fun a => match a with
       | [s; from; h] => match as_zs s, as_z from, as_z h with
           | Some s, Some from, Some h => VZ (spec_PathOf s from h)
           | _, _, _ => VBad end
       | _ => VBad end) |};
  (* PathStr(PathOf(s, from, h)) as bytes *)
  {| op_name := "bmtree.PathOf/str";
     op_run := fun a => match a with
       | [s; from; h] => match as_zs s, as_z from, as_z h with
           | Some s, Some from, Some h =>
               if c11_dom1 s from h && bytes_okb s then
                 match PathOf s from h with Some p => vzs (PathStr p) | None => VPanic end
               else VBad
           | _, _, _ => VBad end
       | _ => VBad end;
     op_spec := fun_spec (fun a => match a with
       | [s; from; h] => match as_zs s, as_z from, as_z h with
           | Some s, Some from, Some h => vzs (spec_PathStrOf s from h)
           | _, _, _ => VBad end
       | _ => VBad end) |};
  {| op_name := "bmtree.PathsOf";
     op_run := fun a => match a with
       | [keys; from; h; dd] => match as_zss keys, as_z from, as_z h, as_bool dd with
           | Some keys, Some from, Some h, Some dd =>
               if c11_domk keys from h && forallb bytes_okb keys then
                 match PathsOf keys from h dd with Some ps => vzs ps | None => VPanic end
               else VBad
           | _, _, _, _ => VBad end
       | _ => VBad end;
     op_spec := fun_spec (fun a => match a with
       | [keys; from; h; dd] => match as_zss keys, as_z from, as_z h, as_bool dd with
           | Some keys, Some from, Some h, Some dd => vzs (spec_PathsOf keys from h dd)
           | _, _, _, _ => VBad end
       | _ => VBad end) |};
  (* two calls; both results are rendered after the second call (a result must not
     alias a buffer that a later call reuses) *)
  {| op_name := "bmtree.PathsOf/held";
     op_run := fun a => match a with
       | [keys1; keys2; from; h; dd] =>
           match as_zss keys1, as_zss keys2, as_z from, as_z h, as_bool dd with
           | Some keys1, Some keys2, Some from, Some h, Some dd =>
               if c11_domk keys1 from h && c11_domk keys2 from h && forallb bytes_okb keys1 && forallb bytes_okb keys2 then
                 match PathsOf keys1 from h dd, PathsOf keys2 from h dd with
                 | Some p1, Some p2 => VL [vzs p1; vzs p2]
                 | _, _ => VPanic end
               else VBad
           | _, _, _, _, _ => VBad end
       | _ => VBad end;
     op_spec := fun_spec (fun a => match a with
       | [keys1; keys2; from; h; dd] =>
           match as_zss keys1, as_zss keys2, as_z from, as_z h, as_bool dd with
           | Some keys1, Some keys2, Some from, Some h, Some dd =>
               VL [vzs (spec_PathsOf keys1 from h dd); vzs (spec_PathsOf keys2 from h dd)]
           | _, _, _, _, _ => VBad end
       | _ => VBad end) |};
  (* [PathLen, PathHeight, PathBits, PathMask] of PathOf(s, from, h) *)
  {| op_name := "bmtree.PathOf/fields";
     op_run := fun a => match a with
       | [s; from; h] => match as_zs s, as_z from, as_z h with
           | Some s, Some from, Some h =>
               if c11_dom1 s from h && bytes_okb s then
                 match PathOf s from h with
                 | Some p => vzs [PathLen p; PathHeight p; PathBits p; PathMask p]
                 | None => VPanic end
               else VBad
           | _, _, _ => VBad end
       | _ => VBad end;
     op_spec := fun_spec (fun a => match a with
       | [s; from; h] => match as_zs s, as_z from, as_z h with
           | Some s, Some from, Some h => vzs (spec_PathOf_fields s from h)
           | _, _, _ => VBad end
       | _ => VBad end) |};
  (* PathsOf(keys, from, h, true) on keys sorted in string order that share their first
     [from] bits: judged by the relational checker (strictly increasing, same set) *)
  {| op_name := "bmtree.PathsOf/sorted";
     op_run := fun a => match a with
       | [keys; from; h] => match as_zss keys, as_z from, as_z h with
           | Some keys, Some from, Some h =>
               if c11_domk keys from h && forallb bytes_okb keys && keys_sortedb keys && same_prefixb from keys then
                 match PathsOf keys from h true with Some ps => vzs ps | None => VPanic end
               else VBad
           | _, _, _ => VBad end
       | _ => VBad end;
     op_spec := fun a obs => match a with
       | [keys; from; h] => match as_zss keys, as_z from, as_z h, as_zs obs with
           | Some keys, Some from, Some h, Some ps => sorted_paths_ok keys from h ps
           | _, _, _, _ => false end
       | _ => false end |};
  (* long key lists in compact form: PathsOf(expand alpha runs, from, h, dd), result run-length encoded *)
  {| op_name := "bmtree.PathsOf/runs";
     op_run := fun a => match a with
       | [alpha; runs; from; h; dd] =>
           match as_zss alpha, as_zss runs, as_z from, as_z h, as_bool dd with
           | Some alpha, Some runs, Some from, Some h, Some dd =>
               match expand_runs alpha runs with
               | Some keys =>
                   if c11_domk alpha from h && forallb bytes_okb alpha then
                     match PathsOf keys from h dd with Some ps => vzss (rle ps) | None => VPanic end
                   else VBad
               | None => VBad end
           | _, _, _, _, _ => VBad end
       | _ => VBad end;
     op_spec := fun_spec (fun a => match a with
       | [alpha; runs; from; h; dd] =>
           match as_zss alpha, as_zss runs, as_z from, as_z h, as_bool dd with
           | Some alpha, Some runs, Some from, Some h, Some dd =>
               match expand_runs alpha runs with
               | Some keys => vzss (rle (spec_PathsOf keys from h dd))
               | None => VBad end
           | _, _, _, _, _ => VBad end
       | _ => VBad end) |};
  (* the same, two calls, both results rendered after the second *)
  {| op_name := "bmtree.PathsOf/runs/held";
     op_run := fun a => match a with
       | [alpha; runs1; runs2; from; h; dd] =>
           match as_zss alpha, as_zss runs1, as_zss runs2, as_z from, as_z h, as_bool dd with
           | Some alpha, Some runs1, Some runs2, Some from, Some h, Some dd =>
               match expand_runs alpha runs1, expand_runs alpha runs2 with
               | Some keys1, Some keys2 =>
                   if c11_domk alpha from h && forallb bytes_okb alpha then
                     match PathsOf keys1 from h dd, PathsOf keys2 from h dd with
                     | Some p1, Some p2 => VL [vzss (rle p1); vzss (rle p2)]
                     | _, _ => VPanic end
                   else VBad
               | _, _ => VBad end
           | _, _, _, _, _, _ => VBad end
       | _ => VBad end;
     op_spec := fun_spec (fun a => match a with
       | [alpha; runs1; runs2; from; h; dd] =>
           match as_zss alpha, as_zss runs1, as_zss runs2, as_z from, as_z h, as_bool dd with
           | Some alpha, Some runs1, Some runs2, Some from, Some h, Some dd =>
               match expand_runs alpha runs1, expand_runs alpha runs2 with
               | Some keys1, Some keys2 =>
                   VL [vzss (rle (spec_PathsOf keys1 from h dd)); vzss (rle (spec_PathsOf keys2 from h dd))]
               | _, _ => VBad end
           | _, _, _, _, _, _ => VBad end
       | _ => VBad end) |};
  (* session: r1 := PathsOf(keys1, dedup=true); r2 := PathsOf(keys2, dd2); the caller appends junk to r1;
     then both are rendered.  A result must not share memory with a later result, not even in its spare capacity. *)
  {| op_name := "bmtree.PathsOf/append";
     op_run := fun a => match a with
       | [keys1; keys2; from; h; dd2; junk] =>
           match as_zss keys1, as_zss keys2, as_z from, as_z h, as_bool dd2, as_zs junk with
           | Some keys1, Some keys2, Some from, Some h, Some dd2, Some junk =>
               if c11_domk keys1 from h && c11_domk keys2 from h && forallb bytes_okb keys1 && forallb bytes_okb keys2 then
                 match PathsOf keys1 from h true, PathsOf keys2 from h dd2 with
                 | Some p1, Some p2 => VL [vzs (p1 ++ junk); vzs p2]
                 | _, _ => VPanic end
               else VBad
           | _, _, _, _, _, _ => VBad end
       | _ => VBad end;
     op_spec := fun_spec (fun a => match a with
       | [keys1; keys2; from; h; dd2; junk] =>
           match as_zss keys1, as_zss keys2, as_z from, as_z h, as_bool dd2, as_zs junk with
           | Some keys1, Some keys2, Some from, Some h, Some dd2, Some junk =>
               VL [vzs (spec_PathsOf keys1 from h true ++ junk); vzs (spec_PathsOf keys2 from h dd2)]
           | _, _, _, _, _, _ => VBad end
       | _ => VBad end) |};
  (* FromStr32 on a huge string P^n ++ T (tens of MB on the Go side).  The model and the spec are run on the
     at most 8 bytes under the window, with the window shifted: theorem C11_FromStr32_local says that is the same. *)
  {| op_name := "bitmap.FromStr32/big";
     op_run := fun a => match a with
       | [P; n; T; from; w] => match as_zs P, as_z n, as_zs T, as_z from, as_z w with
           | Some P, Some n, Some T, Some from, Some w =>
               if c11_dom from w && bytes_okb P && bytes_okb T && (0 <=? n) && ((1 <=? zlen P) || (n =? 0)) &&
                  (8 * big_len P n T <? 2^31) then
                 let p := Z.min (from / 8) (big_len P n T) in
                 let f := from - 8 * p in
                 match FromStr32 (big_window P n T p) f (f + w) with
                 | Some (k, v) => VL [VZ k; VZ v] | None => VPanic end
               else VBad
           | _, _, _, _, _ => VBad end
       | _ => VBad end;
     op_spec := fun_spec (fun a => match a with
       | [P; n; T; from; w] => match as_zs P, as_z n, as_zs T, as_z from, as_z w with
           | Some P, Some n, Some T, Some from, Some w =>
               let p := Z.min (from / 8) (big_len P n T) in
               let r := spec_FromStr32 (big_window P n T p) (from - 8 * p) w in VL [VZ (fst r); VZ (snd r)]
           | _, _, _, _, _ => VBad end
       | _ => VBad end) |};
  (* FromStr32 over [from,from+w1), [from+w1,from+w1+w2) and [from,from+w1+w2): the three
     results, judged by the functional spec and by the composition relation *)
  {| op_name := "bitmap.FromStr32/split";
     op_run := fun a => match a with
       | [s; from; w1; w2] => match as_zs s, as_z from, as_z w1, as_z w2 with
           | Some s, Some from, Some w1, Some w2 =>
               if c11_dom from (w1 + w2) && (0 <=? w1) && (0 <=? w2) && bytes_okb s then
                 match FromStr32 s from (from + w1), FromStr32 s (from + w1) (from + w1 + w2),
                       FromStr32 s from (from + w1 + w2) with
                 | Some (k1, v1), Some (k2, v2), Some (k, v) => VL [vzs [k1; v1]; vzs [k2; v2]; vzs [k; v]]
                 | _, _, _ => VPanic end
               else VBad
           | _, _, _, _ => VBad end
       | _ => VBad end;
     op_spec := fun a obs => match a with
       | [s; from; w1; w2] => match as_zs s, as_z from, as_z w1, as_z w2, as_zss obs with
           | Some s, Some from, Some w1, Some w2, Some [[k1; v1]; [k2; v2]; [k; v]] =>
               let r1 := spec_FromStr32 s from w1 in
               let r2 := spec_FromStr32 s (from + w1) w2 in
               let r := spec_FromStr32 s from (w1 + w2) in
               (k1 =? fst r1) && (v1 =? snd r1) && (k2 =? fst r2) && (v2 =? snd r2) &&
               (k =? fst r) && (v =? snd r) && split_ok w1 w2 (k1, v1) (k2, v2) (k, v)
           | _, _, _, _, _ => false end
       | _ => false end |}
].
