(** Protocol operations for C11 (see Lib/Val.v).
    Domain of every op: from >= 0, 0 <= w <= 32 (w = to-from resp. the height),
    from + w + 7 < 2^31, every byte in [0,256). *)
From Coq Require Import ZArith List Bool String.
From Low Require Import Lib.Bits Lib.BitSeq Lib.Bytes Lib.Val Model.BmtreePathStr Model.FromStr32 Spec.FromStr32Spec.
Import ListNotations.
Open Scope string_scope.
Open Scope Z_scope.

Definition c11_dom (from w : Z) : bool :=
  (0 <=? from) && (0 <=? w) && (w <=? 32) && (from + w + 7 <? 2^31).

Definition ops_C11 : list opdef := [
  {| op_name := "bitmap.FromStr32";
     op_run := fun a => match a with
       | [s; from; to] => match as_zs s, as_z from, as_z to with
           | Some s, Some from, Some to =>
               if c11_dom from (to - from) && bytes_okb s then
                 match FromStr32 s from to with Some (k, v) => VL [VZ k; VZ v] | None => VPanic end
               else VBad
           | _, _, _ => VBad end
       | _ => VBad end;
     op_spec := fun_spec (fun a => match a with
       | [s; from; to] => match as_zs s, as_z from, as_z to with
           | Some s, Some from, Some to =>
               let r := spec_FromStr32 s from (to - from) in VL [VZ (fst r); VZ (snd r)]
           | _, _, _ => VBad end
       | _ => VBad end) |};
  {| op_name := "bmtree.PathOf";
     op_run := fun a => match a with
       | [s; from; h] => match as_zs s, as_z from, as_z h with
           | Some s, Some from, Some h =>
               if c11_dom from h && bytes_okb s then
                 match PathOf s from h with Some p => VZ p | None => VPanic end
               else VBad
           | _, _, _ => VBad end
       | _ => VBad end;
     op_spec := fun_spec (fun a => match a with
       | [s; from; h] => match as_zs s, as_z from, as_z h with
           | Some s, Some from, Some h => VZ (spec_PathOf s from h)
           | _, _, _ => VBad end
       | _ => VBad end) |};
  (* PathStr(PathOf(s, from, h)) as bytes *)
  {| op_name := "bmtree.PathOf/str";
     op_run := fun a => match a with
       | [s; from; h] => match as_zs s, as_z from, as_z h with
           | Some s, Some from, Some h =>
               if c11_dom from h && bytes_okb s then
                 match PathOf s from h with Some p => vzs (PathStr p) | None => VPanic end
               else VBad
           | _, _, _ => VBad end
       | _ => VBad end;
     op_spec := fun_spec (fun a => match a with
       | [s; from; h] => match as_zs s, as_z from, as_z h with
           | Some s, Some from, Some h => vzs (spec_PathStrOf s from h)
           | _, _, _ => VBad end
       | _ => VBad end) |};
  {| op_name := "bmtree.PathsOf";
     op_run := fun a => match a with
       | [keys; from; h; dd] => match as_zss keys, as_z from, as_z h, as_bool dd with
           | Some keys, Some from, Some h, Some dd =>
               if c11_dom from h && forallb bytes_okb keys then
                 match PathsOf keys from h dd with Some ps => vzs ps | None => VPanic end
               else VBad
           | _, _, _, _ => VBad end
       | _ => VBad end;
     op_spec := fun_spec (fun a => match a with
       | [keys; from; h; dd] => match as_zss keys, as_z from, as_z h, as_bool dd with
           | Some keys, Some from, Some h, Some dd => vzs (spec_PathsOf keys from h dd)
           | _, _, _, _ => VBad end
       | _ => VBad end) |}
].
