(** Extraction of the executable model and the specification checkers.
    Only [ExtrOcamlBasic] is used (bool, option, unit, list, prod, sumbool,
    sumor mapped to OCaml's; andb/orb inlined).  No [Extract Constant] of our
    own: [Z], [positive], [nat], [string], [ascii] stay Coq's datatypes. *)
From Coq Require Import ExtrOcamlBasic.
From Low Require Import Lib.Val Run.All.
Extraction "model.ml" Run.All.judge.
