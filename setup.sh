#!/bin/sh
# Run once after a fresh restore (offline): full Coq build, extraction, OCaml driver, warm Go build.
set -e
cd "$(dirname "$0")"
export GOFLAGS=-mod=mod GOPROXY=off GOSUMDB=off GOTOOLCHAIN=local
mkdir -p build evidence replays
./harness/effects/regen.sh /repo   # C19: coq/gen/Effects.v from the Go source (also warms the translator build)
./harness/trans/regen.sh /repo     # T01: coq/gen/Trans.v from the Go source (also warms the translator build)
./coq/gen_project.sh
( cd coq && timeout 7000 make -j"$(nproc)" ) > build/coq-build.log 2>&1 || { tail -40 build/coq-build.log; exit 1; }
./driver/build.sh
# warm the Go build cache (./check rebuilds the harness from /repo's working tree on every run)
mkdir -p build/hsrc && cp harness/*.go harness/go.mod build/hsrc/ && cp /repo/go.sum build/hsrc/go.sum
( cd build/hsrc && CGO_ENABLED=0 go build -tags verif -cover -coverpkg=github.com/openacid/low/...,verif/harness -o ../harness-verif . )
echo setup ok
