(* Generic driver: reads case lines  op \t args \t obs [\t key]  on stdin,
   evaluates the extracted [Run.All.judge] (model + specification checker),
   prints  code \t model-output  per line.
   Hand-written and trusted: this parser/printer of [val] and the conversions
   between decimal/hex text and Coq's binary [Z] (via zarith, used only here). *)

module M = Model

(* ---- Coq Z <-> zarith ---- *)
let rec pos_of_zarith (n : Z.t) : M.positive =
  (* n >= 1 *)
  if Z.equal n Z.one then M.XH
  else if Z.testbit n 0 then M.XI (pos_of_zarith (Z.shift_right n 1))
  else M.XO (pos_of_zarith (Z.shift_right n 1))

let coqz_of_zarith (n : Z.t) : M.z =
  match Z.sign n with
  | 0 -> M.Z0
  | 1 -> M.Zpos (pos_of_zarith n)
  | _ -> M.Zneg (pos_of_zarith (Z.neg n))

let rec zarith_of_pos (p : M.positive) : Z.t =
  match p with
  | M.XH -> Z.one
  | M.XO q -> Z.shift_left (zarith_of_pos q) 1
  | M.XI q -> Z.succ (Z.shift_left (zarith_of_pos q) 1)

let zarith_of_coqz (z : M.z) : Z.t =
  match z with
  | M.Z0 -> Z.zero
  | M.Zpos p -> zarith_of_pos p
  | M.Zneg p -> Z.neg (zarith_of_pos p)

let coqz_of_int (i : int) : M.z = coqz_of_zarith (Z.of_int i)

(* ---- OCaml string -> Coq string ---- *)
let coq_string (s : string) : M.string =
  let r = ref M.EmptyString in
  for i = String.length s - 1 downto 0 do
    let c = Char.code s.[i] in
    let b k = (c lsr k) land 1 = 1 in
    r := M.String (M.Ascii (b 0, b 1, b 2, b 3, b 4, b 5, b 6, b 7), !r)
  done;
  !r

(* ---- val text format ----
   v ::= -?[0-9]+ | 0x[0-9a-f]+ | x[0-9a-f]* (byte string = list of ints)
       | [ v , v , ... ] | [] | P (panic) *)
exception Parse of string

let parse_val (s : string) : M.val0 =
  let n = String.length s in
  let pos = ref 0 in
  let peek () = if !pos < n then s.[!pos] else '\000' in
  let is_hex c = (c >= '0' && c <= '9') || (c >= 'a' && c <= 'f') in
  let hexv c = if c <= '9' then Char.code c - 48 else Char.code c - 87 in
  let rec value () : M.val0 =
    match peek () with
    | '[' ->
      incr pos;
      if peek () = ']' then (incr pos; M.VL [])
      else begin
        let items = ref [] in
        let continue = ref true in
        while !continue do
          items := value () :: !items;
          (match peek () with
           | ',' -> incr pos
           | ']' -> incr pos; continue := false
           | _ -> raise (Parse "expected , or ]"))
        done;
        M.VL (List.rev !items)
      end
    | 'P' -> incr pos; M.VPanic
    | 'x' ->
      incr pos;
      let items = ref [] in
      while is_hex (peek ()) do
        let h = hexv (peek ()) in incr pos;
        if not (is_hex (peek ())) then raise (Parse "odd hex bytes");
        let l = hexv (peek ()) in incr pos;
        items := M.VZ (coqz_of_int (h * 16 + l)) :: !items
      done;
      M.VL (List.rev !items)
    | '0' when !pos + 1 < n && s.[!pos + 1] = 'x' ->
      pos := !pos + 2;
      let st = !pos in
      while is_hex (peek ()) do incr pos done;
      if !pos = st then raise (Parse "empty hex");
      M.VZ (coqz_of_zarith (Z.of_string_base 16 (String.sub s st (!pos - st))))
    | c when c = '-' || (c >= '0' && c <= '9') ->
      let st = !pos in
      incr pos;
      while (let c = peek () in c >= '0' && c <= '9') do incr pos done;
      M.VZ (coqz_of_zarith (Z.of_string (String.sub s st (!pos - st))))
    | _ -> raise (Parse (Printf.sprintf "unexpected char at %d in %s" !pos (if n > 80 then String.sub s 0 80 else s)))
  in
  let v = value () in
  if !pos <> n then raise (Parse "trailing garbage");
  v

let rec print_val (b : Buffer.t) (v : M.val0) : unit =
  match v with
  | M.VZ z -> Buffer.add_string b (Z.to_string (zarith_of_coqz z))
  | M.VPanic -> Buffer.add_char b 'P'
  | M.VBad -> Buffer.add_string b "BAD"
  | M.VL l ->
    Buffer.add_char b '[';
    List.iteri (fun i x -> if i > 0 then Buffer.add_char b ','; print_val b x) l;
    Buffer.add_char b ']'

let () =
  let out = Buffer.create 65536 in
  (try
     while true do
       let line = input_line stdin in
       let fields = String.split_on_char '\t' line in
       (match fields with
        | op :: args :: obs :: _ ->
          (try
             let a = parse_val args and o = parse_val obs in
             let (code, m) = M.judge (coq_string op) a o in
             Buffer.add_string out (Z.to_string (zarith_of_coqz code));
             Buffer.add_char out '\t';
             print_val out m
           with
           | Parse msg -> Buffer.add_string out ("3\tPARSE:" ^ msg)
           | Stack_overflow -> Buffer.add_string out "3\tSTACKOVERFLOW")
        | _ -> Buffer.add_string out "3\tFIELDS");
       Buffer.add_char out '\n';
       if Buffer.length out > 60000 then (print_string (Buffer.contents out); Buffer.clear out)
     done
   with End_of_file -> ());
  print_string (Buffer.contents out)
