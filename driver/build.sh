#!/bin/sh
# Builds the driver from the freshly extracted model. Output: /verif/build/driver
set -e
cd "$(dirname "$0")"
B=../build/driver.d
mkdir -p "$B"
( cd ../coq/extract && coqc -Q ../theories Low $( [ -d ../gen ] && echo "-Q ../gen LowGen" ) Extract.v >/dev/null )
cp ../coq/extract/model.ml ../coq/extract/model.mli driver.ml "$B"/
cd "$B"
ocamlfind ocamlopt -package zarith -linkpkg model.mli model.ml driver.ml -o driver.new
mv -f driver.new ../driver
