#!/bin/sh
# Builds the driver from the freshly extracted model. Output: /verif/build/driver
set -e
cd "$(dirname "$0")"
B=../build/driver.d
mkdir -p "$B"
( cd ../coq/extract && coqc -Q ../theories Low $( [ -d ../gen ] && echo "-Q ../gen LowGen" ) Extract.v >/dev/null )
cp ../coq/extract/model.ml ../coq/extract/model.mli driver.ml "$B"/
cd "$B"
ocamlfind ocamlopt -O2 -package zarith -linkpkg model.mli model.ml driver.ml -o ../driver 2>/dev/null \
 || ocamlfind ocamlopt -package zarith -linkpkg model.mli model.ml driver.ml -o ../driver
